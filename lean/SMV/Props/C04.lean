import SMV.Lemmas.Rtc
import SMV.Lemmas.NoSends
/-!
# C04 — A failing callback leaves a consistent, usable machine (run-to-completion mode)

No assumption on callbacks at all (`m.behav` arbitrary): whatever raises wherever,
* the state is the source's if the failure is in the first half of the activation
  (validators, guards, before, exit, on — `activatePre`) and the target's if it is in the second
  half (enter, after — `activatePost`), never anything else (`C04_state`);
* the exception reaches the caller of the drain loop, the queue is emptied, the lock released
  (`C04_drain_error`, `C04_process_error`, `C04_not_wedged`).
-/
namespace SMV

theorem activatePre_same' (m : Machine) (t : Trigger) (tr : Transn) : Resp Same (activatePre nestedRtc m t tr) :=
  activatePre_lift Same.lift m t tr fun ph _ _ cb _ => entryOk_true _ ph cb

/-- once past the `on` group the model field holds the target's value, whatever happens next -/
theorem activatePost_cur (m : Machine) (t : Trigger) (tr : Transn) (c : Cfg) :
    (activatePost nestedRtc m t tr c).1.cur = some (stateVal m tr.target) := by
  unfold activatePost
  rw [bind_ok (c := c) (a := ()) rfl]
  have : Resp Same (do
      let _ ← runGroup nestedRtc m { t := t, src := some tr.source, tgt := tr.target } .enter
        (if tr.internal then [] else (stateDef m tr.target).enter)
      let _ ← runGroup nestedRtc m { t := t, src := some tr.source, tgt := tr.target } .after
        (applicable t.event tr.after)
      pure ()) :=
    Same.lift.bind (runGroup_same m _ _ _) fun _ => Same.lift.bind (runGroup_same m _ _ _) fun _ => Same.lift.pure _
  rw [(this _).cur]
  rfl

/-- **C04 (state after a failure).** For every transition, trigger, configuration and callback
behaviour: an exception raised in validators, guards, `before`, `exit` or `on` leaves the model
field as it was (the source); one raised in `enter` or `after` leaves it at the target's value;
a completed activation leaves it at the target's value, a rejected one unchanged. -/
theorem C04_state (m : Machine) (t : Trigger) (tr : Transn) (c : Cfg) :
    match activatePre nestedRtc m t tr c with
    | (c1, .error e) => activate nestedRtc m t tr c = (c1, .error e) ∧ c1.cur = c.cur
    | (c1, .ok none) => activate nestedRtc m t tr c = (c1, .ok none) ∧ c1.cur = c.cur
    | (c1, .ok (some rs)) =>
      c1.cur = c.cur ∧
      match activatePost nestedRtc m t tr c1 with
      | (c2, .error e) => activate nestedRtc m t tr c = (c2, .error e) ∧ c2.cur = some (stateVal m tr.target)
      | (c2, .ok _) => activate nestedRtc m t tr c = (c2, .ok (some (unwrap rs))) ∧
                       c2.cur = some (stateVal m tr.target) := by
  have hsame := (activatePre_same' m t tr c).cur
  unfold activate
  rw [EM.bind_apply]
  generalize activatePre nestedRtc m t tr c = r at hsame
  obtain ⟨c1, r1⟩ := r
  cases r1 with
  | error e => exact ⟨rfl, hsame⟩
  | ok o =>
    cases o with
    | none => exact ⟨rfl, hsame⟩
    | some rs =>
      refine ⟨hsame, ?_⟩
      simp only
      have hcur := activatePost_cur m t tr c1
      rw [EM.bind_apply]
      generalize activatePost nestedRtc m t tr c1 = r2 at hcur
      obtain ⟨c2, r2⟩ := r2
      cases r2 with
      | error e => exact ⟨rfl, hcur⟩
      | ok u => exact ⟨rfl, hcur⟩

/-- the state after an activation is the one before or the target's — never anything else -/
theorem C04_state_two_values (m : Machine) (t : Trigger) (tr : Transn) (c : Cfg) :
    (activate nestedRtc m t tr c).1.cur = c.cur ∨
    (activate nestedRtc m t tr c).1.cur = some (stateVal m tr.target) := by
  have h := C04_state m t tr c
  generalize activatePre nestedRtc m t tr c = r at h
  obtain ⟨c1, r1⟩ := r
  cases r1 with
  | error e => simp only at h; rw [h.1]; exact Or.inl h.2
  | ok o =>
    cases o with
    | none => simp only at h; rw [h.1]; exact Or.inl h.2
    | some rs =>
      simp only at h
      have h2 := h.2
      generalize activatePost nestedRtc m t tr c1 = r2 at h2
      obtain ⟨c2, r2⟩ := r2
      cases r2 with
      | error e => simp only at h2; rw [h2.1]; exact Or.inr h2.2
      | ok u => simp only at h2; rw [h2.1]; exact Or.inr h2.2

/-- **C04 (queue dropped, exception propagated).** When processing a queued event raises, the
drain loop hands that exception to its caller and the queue is empty afterwards: events still
waiting are dropped and can never run later. (`.fuel` is the model's own "ran out of steps".) -/
theorem C04_drain_error (m : Machine) (fuel : Nat) (first : Option Res) (c : Cfg) (e : Exc)
    (h : (drainLoop m fuel first c).2 = .error e) (he : e ≠ .fuel) :
    (drainLoop m fuel first c).1.queue = [] := by
  induction fuel generalizing first c with
  | zero =>
    unfold drainLoop at h ⊢
    split at h
    · simp at h
    · simp at h; exact absurd h.symm he
  | succ n ih =>
    unfold drainLoop at h ⊢
    split
    · rename_i hq; exact hq
    · rename_i tq q hq
      rw [hq] at h
      simp only at h
      split
      · rename_i cfg' r heq
        rw [heq] at h
        exact ih _ _ h
      · rfl

/-- the lock is released on every exit path -/
theorem C04_not_wedged (m : Machine) (fuel : Nat) (c : Cfg) (h : c.locked = false) :
    (processRtc m fuel c).1.locked = false := by
  unfold processRtc
  simp [h]

/-- `processing_loop` re-raises what the drain loop raised and leaves queue empty, lock free -/
theorem C04_process_error (m : Machine) (fuel : Nat) (c : Cfg) (hl : c.locked = false) (e : Exc)
    (h : (processRtc m fuel c).2 = .error e) (he : e ≠ .fuel) :
    (processRtc m fuel c).1.queue = [] ∧ (processRtc m fuel c).1.locked = false ∧
    (drainLoop m fuel none { c with locked := true }).2 = .error e := by
  unfold processRtc at h ⊢
  simp only [hl, Bool.false_eq_true, if_false] at h ⊢
  exact ⟨C04_drain_error m fuel none _ e h he, trivial, h⟩

/-- … so a failing `send` leaves a machine on which the next `send` is processed normally:
unlocked, nothing queued. -/
theorem C04_send_error_usable (m : Machine) (kind : Kind) (fuel : Nat) (ev : EventId) (c : Cfg)
    (hl : c.locked = false) (e : Exc)
    (h : (send m { rtc := true, kind := kind } fuel ev c).2 = .error e) (he : e ≠ .fuel) :
    (send m { rtc := true, kind := kind } fuel ev c).1.queue = [] ∧
    (send m { rtc := true, kind := kind } fuel ev c).1.locked = false := by
  unfold send at h ⊢
  rw [bind_ok (c := c) (a := ()) rfl] at h ⊢
  simp only [process] at h ⊢
  have hl' : (enqueue ev c).1.locked = false := hl
  have := C04_process_error m fuel _ hl' e h he
  exact ⟨this.1, this.2.1⟩

/-! ## `rtc=False`

Without nested sends the handler is irrelevant (`Lemmas/NoSends`): the state after a failing activation is the
source's or the target's, by phase, in the depth-first mode too. (A nested event run from inside a callback under
`rtc=False` changes the state on its own account; what the *outer* transition contributes is still this.) -/

theorem C04_state_two_values_any {m : Machine} (hs : NoSends m) (h : Nested) (t : Trigger) (tr : Transn) (c : Cfg) :
    (activate h m t tr c).1.cur = c.cur ∨ (activate h m t tr c).1.cur = some (stateVal m tr.target) := by
  rw [activate_any hs h]; exact C04_state_two_values m t tr c

theorem activatePost_cur_any {m : Machine} (hs : NoSends m) (h : Nested) (t : Trigger) (tr : Transn) (c : Cfg) :
    (activatePost h m t tr c).1.cur = some (stateVal m tr.target) := by
  rw [activatePost_any hs h]; exact activatePost_cur m t tr c

/-- non-RTC `processing_loop` (`popTrigger`): an exception raised while the popped event is processed reaches the
caller as it is, and nothing stays locked (this mode never takes the lock) -/
theorem C04_nonrtc_propagates (h : Nested) (m : Machine) (c : Cfg) (t : Trigger) (q : List Trigger)
    (hq : c.queue = t :: q) (e : Exc) (he : (trigger h m t { c with queue := q }).2 = .error e) :
    (popTrigger h m c).2 = .error e ∧ (popTrigger h m c).1 = (trigger h m t { c with queue := q }).1 := by
  unfold popTrigger
  rw [hq]
  simp only
  generalize trigger h m t { c with queue := q } = r at he
  obtain ⟨c1, r1⟩ := r
  simp only at he
  subst he
  exact ⟨rfl, rfl⟩

end SMV
