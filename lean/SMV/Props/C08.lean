import SMV.Lemmas.ExprGuards
import SMV.Lemmas.ExprLexer
/-!
# C08 — Guards: cond/unless conjunction and Python-faithful boolean expressions

Property text (properties.jsonl): a transition is enabled iff every `cond` entry is truthy and
every `unless` entry is falsy (entries: callables, attributes, properties, boolean expressions);
an expression built from names, `not`/`!`, `and`/`^`, `or`/`v`, parentheses, literals and the six
comparison operators evaluates exactly as Python evaluates it (precedence, left-to-right
short-circuit, current values at every evaluation); expressions that do not parse or that name
something no provider has are rejected with `InvalidDefinition` at instantiation, never when an
event arrives.

How the statement is split (models: `SMV/Model/Expr.lean`, `SMV/Model/Lexer.lean`):

* text → text: `replace_operators` and the plain-name fast path (`C08_rewrite_tokens`,
  `C08_rewrite_chars_partial`, `C08_rewrite_padded`, witnesses for the three lexical defects
  D8/D9/D22 of the code as found, `fixed := false`);
* text → tree: CPython's `ast.parse` — **trusted** (precedence is Python's by construction);
* tree → closure tree → value: `C08_eval` (the library's closures compute what the language
  reference prescribes for that tree: same value or same failure, same reads in the same order),
  `C08_boolop_fold` (folding an n-ary `BoolOp` to the left does not matter);
* names → providers: `C08_providers` (`reduce(custom_and, providers)`), `C08_names_resolved`;
* entries → enabled: `C08_guard_conj`, `C08_transition_enabled`;
* instantiation: `C08_reject_early`, `C08_end_to_end`.

Everything is for all expressions (any nesting), all environments, all comparison semantics `S`.
The environment is a function, i.e. reading a name has no effect on what later reads *within the
same evaluation* return; across evaluations it is arbitrary (`∀ ρ`).
-/
namespace SMV.GExpr

/-! ## Expressions evaluate as Python evaluates them -/

/-- **C08_eval.** For every expression tree (any nesting, chained comparisons), every environment
and every comparison semantics: the library's closure tree yields the value Python yields — or
fails exactly when Python fails — and, once the library's re-evaluations of the middle operands
of chained comparisons are erased, reads the same names in the same order (left to right,
short-circuit). -/
theorem C08_eval (S : Sem) (ρ : Env) (e : E) :
    (evalLib S ρ false e).val = (evalPy S ρ e).val ∧
    firstReads (evalLib S ρ false e).reads = (evalPy S ρ e).reads :=
  eval_lib_py S ρ e

/-- the truth value the guard machinery looks at (`bool(value)`) -/
theorem C08_truthy (S : Sem) (ρ : Env) (e : E) :
    (evalLib S ρ false e).val.map truthy = (evalPy S ρ e).val.map truthy := by
  rw [(C08_eval S ρ e).1]

/-- non-vacuity: `a or b and c` with a = 1 (truthy), c falsy: value is `a`'s value, only `a` is
read; `0 < x < 2 < y` re-reads `x` in the library (flag `true`) but the first reads agree. -/
example :
    let ρ : Env := fun n => if n = 0 then .int 1 else .int 0
    let e := E.or (.name 0) (.and (.name 1) (.name 2))
    (evalLib pySem ρ false e).val = some (.int 1) ∧ (evalPy pySem ρ e).reads = [0] := by decide

example :
    let ρ : Env := fun _ => .int 1
    let e := E.cmp (.const (.int 0)) (.more .lt (.name 7) (.more .lt (.const (.int 2)) (.last .lt (.name 8))))
    (evalLib pySem ρ false e).reads = [(7, false), (7, true), (8, false)] ∧
    (evalPy pySem ρ e).reads = [7, 8] ∧ (evalLib pySem ρ false e).val = some (.bool false) := by decide

/-- a comparison that raises (`None < 1`) raises in both, after the same reads -/
example :
    let ρ : Env := fun _ => .none
    let e := E.and (.not (.name 1)) (.cmp (.name 2) (.last .lt (.const (.int 1))))
    (evalLib pySem ρ false e).val = none ∧ (evalPy pySem ρ e).val = none ∧
    (evalPy pySem ρ e).reads = [1, 2] := by decide

/-- **C08_boolop_fold.** Python evaluates `a and b and c` (one n-ary `BoolOp`) left to right;
`build_expression` folds it to the left, `(a and b) and c`. Both nestings have the same value and
reads, so the fold direction is immaterial (same for `or`). -/
theorem C08_boolop_fold (S : Sem) (ρ : Env) (a b c : E) :
    evalPy S ρ (.and (.and a b) c) = evalPy S ρ (.and a (.and b c)) ∧
    evalPy S ρ (.or (.or a b) c) = evalPy S ρ (.or a (.or b c)) := by
  constructor
  · simp only [evalPy]
    cases ha : (evalPy S ρ a).val with
    | none => simp [ha]
    | some va =>
      by_cases hta : truthy va = true
      · simp only [hta, if_true]
        cases hb : (evalPy S ρ b).val with
        | none => simp [hb]
        | some vb =>
          by_cases htb : truthy vb = true
          · simp [htb, List.append_assoc]
          · simp [htb, hb]
      · simp [hta, ha]
  · simp only [evalPy]
    cases ha : (evalPy S ρ a).val with
    | none => simp [ha]
    | some va =>
      by_cases hta : truthy va = true
      · simp [hta, ha]
      · simp only [hta, Bool.false_eq_true, if_false]
        cases hb : (evalPy S ρ b).val with
        | none => simp [hb]
        | some vb =>
          by_cases htb : truthy vb = true
          · simp [htb, hb]
          · simp [htb, List.append_assoc]

/-! ## Names provided by machine, model, listeners -/

/-- **C08_providers.** A name found on several providers `[s₁ … s_k]` (in the order machine,
model, listeners) is worth `s₁ and s₂ and … and s_k` as Python evaluates it: the first falsy
value, else the last; the providers are read in that order up to the first falsy one. -/
theorem C08_providers (S : Sem) (ρ : Env) (ps : List Nat) :
    (evalLib S ρ false (provExpr ps)).val = some (andAll ρ ps) ∧
    firstReads (evalLib S ρ false (provExpr ps)).reads = provReads ρ ps := by
  have := evalLib_provExpr S ρ false ps
  rw [this.1, this.2, firstReads_map_false]
  exact ⟨rfl, rfl⟩

example :
    let ρ : Env := fun n => if n = 11 then .str "" else .int 5
    andAll ρ [10, 11, 12] = .str "" ∧ provReads ρ [10, 11, 12] = [10, 11] ∧
    andAll ρ [10, 12] = .int 5 := by decide

/-- **C08_names_resolved.** The closure tree built over provider slots evaluates the *declared*
expression as Python would, in the environment where each name is worth the conjunction of its
providers; reads are the providers' slots in that order. -/
theorem C08_names_resolved (S : Sem) (prov : Nat → List Nat) (ρ : Env) (e : E) :
    (evalLib S ρ false (subst prov e)).val = (evalPy S (envOf prov ρ) e).val ∧
    firstReads (evalLib S ρ false (subst prov e)).reads =
      (evalPy S (envOf prov ρ) e).reads.flatMap (fun n => provReads ρ (prov n)) := by
  have h1 := evalLib_subst S prov ρ false e
  have h2 := C08_eval S (envOf prov ρ) e
  rw [h1.1, h1.2, firstReads_expand, h2.1, h2.2]
  exact ⟨rfl, rfl⟩

/-! ## cond / unless lists -/

/-- **C08_guard_conj.** `CallbacksExecutor.all` over entries with expected values:
(1) the result is "enabled" iff every entry, evaluated as Python evaluates it, has the expected
truth value (`cond`: truthy, `unless`: falsy);
(2) it is "not enabled" iff some entry has the opposite truth value and all entries before it
pass (so an exception in a later entry is never reached);
(3) the entries are evaluated left to right up to and including the first one that does not pass
(wrong truth value or exception), each reading what Python reads. -/
theorem C08_guard_conj (S : Sem) (ρ : Env) (gs : List Guard) :
    ((allLib S ρ gs).val = some true ↔ ∀ g ∈ gs, passes S ρ g = true) ∧
    ((allLib S ρ gs).val = some false ↔
      ∃ pre g post, gs = pre ++ g :: post ∧ (∀ p ∈ pre, passes S ρ p = true) ∧
        (evalPy S ρ g.e).val.map truthy = some (!g.expected)) ∧
    firstReads (allLib S ρ gs).reads =
      (untilFail S ρ gs).flatMap (fun g => (evalPy S ρ g.e).reads) := by
  have h := all_lib_py S ρ gs
  rw [h.1, h.2]
  exact ⟨allPy_true_iff S ρ gs, allPy_false_iff S ρ gs, allPy_reads S ρ gs⟩

/-- **C08_transition_enabled.** `Transition(cond=cs, unless=us)`: enabled iff every `cond` entry is
truthy and every `unless` entry is falsy (each evaluated as Python evaluates it). -/
theorem C08_transition_enabled (S : Sem) (ρ : Env) (cs us : List E) :
    (allLib S ρ (guardsOf cs us)).val = some true ↔
      (∀ c ∈ cs, (evalPy S ρ c).val.map truthy = some true) ∧
      (∀ u ∈ us, (evalPy S ρ u).val.map truthy = some false) := by
  rw [(C08_guard_conj S ρ _).1]
  simp only [guardsOf, List.mem_append, List.mem_map, passes, beq_iff_eq]
  constructor
  · intro h
    exact ⟨fun c hc => h ⟨c, true⟩ (Or.inl ⟨c, hc, rfl⟩), fun u hu => h ⟨u, false⟩ (Or.inr ⟨u, hu, rfl⟩)⟩
  · rintro ⟨hc, hu⟩ g (⟨c, hcm, rfl⟩ | ⟨u, hum, rfl⟩)
    · exact hc c hcm
    · exact hu u hum

/-- non-vacuity: cond = [x, y > 1], unless = [z]; x = "a", y = 2, z = [] → enabled; with z = [None]
not enabled and all three entries were evaluated; with x = "" only x is read. -/
example :
    let gs := guardsOf [.name 0, .cmp (.name 1) (.last .gt (.const (.int 1)))] [.name 2]
    let ρ₁ : Env := fun n => if n = 0 then .str "a" else if n = 1 then .int 2 else .list 0
    let ρ₂ : Env := fun n => if n = 0 then .str "a" else if n = 1 then .int 2 else .list 1
    let ρ₃ : Env := fun n => if n = 0 then .str "" else if n = 1 then .int 2 else .list 0
    (allLib pySem ρ₁ gs).val = some true ∧
    (allLib pySem ρ₂ gs).val = some false ∧ firstReads (allLib pySem ρ₂ gs).reads = [0, 1, 2] ∧
    (allLib pySem ρ₃ gs).val = some false ∧ firstReads (allLib pySem ρ₃ gs).reads = [0] := by decide

/-! ## Operator spellings -/

/-- **C08_rewrite_tokens.** On token lists the rewrite maps `!`, `^`, `v` to `not`, `and`, `or`
position by position and is the identity on every other token — in particular on `!=` and on
identifiers that merely contain `v` (or `not`/`and`/`or`) as a substring. -/
theorem C08_rewrite_tokens (ts : List Tok) :
    (rewriteToks ts).length = ts.length ∧
    (∀ i (h : i < ts.length),
      (ts[i] = .bang → (rewriteToks ts)[i]? = some .kwNot) ∧
      (ts[i] = .caret → (rewriteToks ts)[i]? = some .kwAnd) ∧
      (ts[i] = .ident "v" → (rewriteToks ts)[i]? = some .kwOr) ∧
      (isAlt ts[i] = false → (rewriteToks ts)[i]? = some ts[i])) ∧
    (∀ t ∈ rewriteToks ts, isAlt t = false) := by
  refine ⟨by simp [rewriteToks], ?_, ?_⟩
  · intro i h
    simp only [rewriteToks, List.getElem?_map, List.getElem?_eq_getElem h, Option.map_some,
      Option.some.injEq]
    refine ⟨fun e => by rw [e]; rfl, fun e => by rw [e]; rfl, fun e => by rw [e]; rfl, ?_⟩
    intro hn
    cases ht : ts[i] with
    | ident s =>
      rw [ht] at hn
      simp only [isAlt, decide_eq_false_iff_not] at hn
      simp [rewriteTok, hn]
    | bang => rw [ht] at hn; simp [isAlt] at hn
    | caret => rw [ht] at hn; simp [isAlt] at hn
    | _ => rfl
  · intro t ht
    simp only [rewriteToks, List.mem_map] at ht
    obtain ⟨u, _, rfl⟩ := ht
    cases u with
    | ident s =>
      by_cases hs : s = "v"
      · simp [rewriteTok, hs, isAlt]
      · simp [rewriteTok, hs, isAlt]
    | _ => simp [rewriteTok, isAlt]

theorem C08_rewrite_keeps_ne_and_names (s : String) (h : s ≠ "v") :
    rewriteTok (.cmp .ne) = .cmp .ne ∧ rewriteTok (.ident s) = .ident s := by
  simp [rewriteTok, h]

/-- non-vacuity: `!vx != v_ v nota ^ v1` -/
example :
    rewriteToks [.bang, .ident "vx", .cmp .ne, .ident "v_", .ident "v", .ident "nota", .caret, .ident "v1"]
      = [.kwNot, .ident "vx", .cmp .ne, .ident "v_", .kwOr, .ident "nota", .kwAnd, .ident "v1"] := by
  decide

/-- a rendering of tokens with separators that CPython's tokenizer reads back as those tokens:
every token lexically well-formed (names are word characters, numbers digits, string literals
single-line with matching quotes), separators are blanks/tabs, two word-like tokens are never
glued together, and `!` is not glued to a comparison operator -/
def wellSpaced : List Tok → List (List Char) → Bool
  | [], _ => true
  | [t], seps => wfTok t && (seps.headD []).all isSep
  | t :: t' :: ts, seps =>
    wfTok t && (seps.headD []).all isSep &&
    (!(seps.headD []).isEmpty || (!(wordy t && wordy t') && !(t == .bang && isCmpTok t'))) &&
    wellSpaced (t' :: ts) seps.tail

theorem render_cons (txt : Tok → List Char) (t : Tok) (ts : List Tok) (seps : List (List Char)) :
    render txt (t :: ts) seps = txt t ++ (seps.headD [] ++ render txt ts seps.tail) := by
  cases seps <;> simp [render]

theorem repl_render (ts : List Tok) :
    ∀ (seps : List (List Char)) (pw : Bool), wellSpaced ts seps = true →
      (∀ t, ts.head? = some t → wordy t = true → pw = false) →
      repl true (.code pw) (render tokText ts seps) = render tokTextR ts seps := by
  induction ts with
  | nil => intro seps pw _ _; cases seps <;> rfl
  | cons t ts ih =>
    intro seps pw hws hpw
    rw [render_cons, render_cons]
    cases ts with
    | nil =>
      simp only [wellSpaced, Bool.and_eq_true] at hws
      have hr : ∀ txt : Tok → List Char, render txt [] seps.tail = [] := by
        intro txt; cases seps.tail <;> rfl
      rw [hr, hr, List.append_nil]
      have hnw : nextIsWord (seps.headD []) = false := by
        by_cases he : seps.headD [] = []
        · rw [he]; rfl
        · have := nextIsWord_sep (seps.headD []) [] hws.2 he; simpa using this
      have hne : nextIsEq (seps.headD []) = false := by
        by_cases he : seps.headD [] = []
        · rw [he]; rfl
        · have := nextIsEq_sep (seps.headD []) [] hws.2 he; simpa using this
      rw [repl_tok t pw _ hws.1 (hpw t rfl) (fun _ => hnw) (fun _ => hne)]
      have := repl_sep (wordy t) (seps.headD []) [] hws.2
      simp only [List.append_nil] at this
      rw [this]
      simp [repl]
    | cons t' ts =>
      simp only [wellSpaced, Bool.and_eq_true, Bool.or_eq_true, Bool.not_eq_true',
        List.isEmpty_eq_false_iff, Bool.and_eq_false_iff] at hws
      obtain ⟨⟨⟨hwf, hsep⟩, hadj⟩, hrest⟩ := hws
      have hwf' : wfTok t' = true := by
        cases ts with
        | nil => simp only [wellSpaced, Bool.and_eq_true] at hrest; exact hrest.1
        | cons t'' ts =>
          simp only [wellSpaced, Bool.and_eq_true] at hrest; exact hrest.1.1.1
      have hrc := render_cons tokText t' ts seps.tail
      have hnw : wordy t = true → nextIsWord (seps.headD [] ++ render tokText (t' :: ts) seps.tail) = false := by
        intro hw
        by_cases he : seps.headD [] = []
        · rw [he, List.nil_append, hrc]
          rcases hadj with h | ⟨h, _⟩
          · exact absurd he h
          · rcases h with h | h
            · rw [hw] at h; cases h
            · exact nextIsWord_tok t' _ hwf' h
        · exact nextIsWord_sep _ _ hsep he
      have hne : t = .bang → nextIsEq (seps.headD [] ++ render tokText (t' :: ts) seps.tail) = false := by
        intro hb
        by_cases he : seps.headD [] = []
        · rw [he, List.nil_append, hrc]
          rcases hadj with h | ⟨_, h⟩
          · exact absurd he h
          · rcases h with h | h
            · subst hb; simp at h
            · exact nextIsEq_tok t' _ hwf' h
        · exact nextIsEq_sep _ _ hsep he
      rw [repl_tok t pw _ hwf (hpw t rfl) hnw hne, repl_sep _ _ _ hsep]
      rw [ih seps.tail _ hrest]
      intro u hu hwu
      simp only [List.head?_cons, Option.some.injEq] at hu
      subst hu
      by_cases he : seps.headD [] = []
      · simp only [he, if_true]
        rcases hadj with h | ⟨h, _⟩
        · exact absurd he h
        · rcases h with h | h
          · exact h
          · rw [hwu] at h; cases h
      · rw [if_neg he]

/-- **C08_rewrite_chars_partial.** The (repaired) regex substitution, as a character scanner,
applied to any well-spaced rendering of a token list — optional blanks anywhere, none needed around
`>=`, `^`, `!`, parentheses or string literals — writes the same rendering with exactly the three
alternate spellings replaced by blank-padded keywords (`!` ↦ `␣not␣`, `^` ↦ `␣and␣`, `v` ↦ `␣or␣`)
and every other token and every separator — names containing `v`, `!=`, string literals containing
`v ! ^` — unchanged; then strips the ends (a leading blank would be an `IndentationError`).

Full statement aimed at (not proved; `lex` = CPython's tokenizer, which is not modelled):
`lex (replaceOperators (render tokText ts seps)) = rewriteToks ts` for every rendering the
tokenizer accepts. Proved here: the text-to-text half, and (`C08_rewrite_padded`) that every
inserted keyword carries a blank on both sides, so it cannot fuse with a neighbour. Missing: the
tokenizer itself (that the output is lexed as `rewriteToks ts`), non-ASCII identifiers, string
prefixes / triple quotes / line continuations. That half is exercised by the correspondence check
(CPython parses the rewritten text of every generated expression and must build the tree of the
canonical text). -/
theorem C08_rewrite_chars_partial (ts : List Tok) (seps : List (List Char))
    (h : wellSpaced ts seps = true) :
    replaceOperators true (render tokText ts seps) = strip (render tokTextR ts seps) := by
  simp only [replaceOperators, if_true]
  congr 1
  apply repl_render ts seps false h
  intro _ _ _; rfl

/-- **C08_rewrite_padded.** What is written for an alternate spelling starts and ends with a blank;
every other token is written as it was. -/
theorem C08_rewrite_padded (t : Tok) :
    (isAlt t = true → (tokTextR t).head? = some ' ' ∧ (tokTextR t).getLast? = some ' ') ∧
    (isAlt t = false → tokTextR t = tokText t) := by
  cases t with
  | ident s =>
    by_cases hs : s = "v"
    · subst hs; exact ⟨fun _ => by decide, fun h => by simp [isAlt] at h⟩
    · exact ⟨fun h => by simp [isAlt, hs] at h, fun _ => by simp [tokTextR, tokText, hs]⟩
  | bang => exact ⟨fun _ => by decide, fun h => by simp [isAlt] at h⟩
  | caret => exact ⟨fun _ => by decide, fun h => by simp [isAlt] at h⟩
  | _ => exact ⟨fun h => by simp [isAlt] at h, fun _ => rfl⟩

/-- non-vacuity: `!vx>=1^(s=='v' v nota)!=v1 and!w` -/
example :
    let ts : List Tok := [.bang, .ident "vx", .cmp .ge, .num "1", .caret, .lpar, .ident "s", .cmp .eq,
      .strLit "'v'", .ident "v", .ident "nota", .rpar, .cmp .ne, .ident "v1", .kwAnd, .bang, .ident "w"]
    let seps : List (List Char) := [[], [], [], [], [], [], [], [], [' '], [' '], [], [], [], [' '], [], []]
    wellSpaced ts seps = true ∧
    String.ofList (render tokText ts seps) = "!vx>=1^(s=='v' v nota)!=v1 and!w" ∧
    String.ofList (replaceOperators true (render tokText ts seps)) =
      "not vx>=1 and (s=='v'  or  nota)!=v1 and not w" := by
  decide

/-- **D22 as found** (`fixed := false`): `!` glued to a preceding keyword is rewritten to a text
that no longer separates the two words (`x andnot y`, a syntax error); repaired: `x and not y`. -/
theorem C08_D22_asis_counterexample :
    String.ofList (replaceOperators false "x and!y".toList) = "x andnot y" ∧
    String.ofList (replaceOperators true "x and!y".toList) = "x and not y" ∧
    String.ofList (replaceOperators true "!x".toList) = "not x" := by decide

/-- **D9 as found** (`fixed := false`): the text inside a string literal is rewritten, so
`x == 'v'` compares `x` with `' or '`; repaired: untouched. -/
theorem C08_D9_asis_counterexample :
    String.ofList (replaceOperators false "x == 'v'".toList) = "x == ' or '" ∧
    String.ofList (replaceOperators true "x == 'v'".toList) = "x == 'v'" := by decide

/-- **D8 as found** (`fixed := false`): `x>=1` (no blank, no `!`) is taken as ONE name — which no
provider has, hence a spurious `InvalidDefinition`; repaired: only identifiers take the fast path. -/
theorem C08_D8_asis_counterexample :
    prepare false "x>=1".toList = .name "x>=1".toList ∧
    prepare true "x>=1".toList = .parse "x>=1".toList ∧
    prepare true "x".toList = .name "x".toList ∧
    prepare true "True".toList = .parse "True".toList ∧
    prepare true "a^b".toList = .parse "a and b".toList := by decide

/-! ## Instantiation -/

/-- **C08_reject_early.** Instantiation answers `InvalidDefinition` iff some entry's text does not
parse or some entry names something no provider has; otherwise every registered guard is the fully
resolved closure tree of its entry (no placeholder for an unknown name survives), in declaration
order. Event-time evaluation (`allLib`) has no "unknown name" outcome at all: its results are
enabled / not enabled / the guard's own exception. -/
theorem C08_reject_early (prov : Nat → List Nat) (entries : List (Src × Bool)) :
    (construct prov entries = .invalidDefinition ↔ ∃ en ∈ entries, badEntry prov en) ∧
    ((∀ en ∈ entries, ¬ badEntry prov en) →
      construct prov entries =
        .ok ((sourceGuards entries).map (fun g => ⟨subst prov g.e, g.expected⟩))) := by
  rcases construct_spec prov entries with ⟨h1, h2⟩ | ⟨h1, h2⟩
  · refine ⟨⟨fun _ => h2, fun _ => h1⟩, ?_⟩
    intro hall
    obtain ⟨en, hm, hb⟩ := h2
    exact absurd hb (hall en hm)
  · refine ⟨⟨?_, ?_⟩, fun _ => h1⟩
    · intro h; rw [h1] at h; cases h
    · rintro ⟨en, hm, hb⟩; exact absurd hb (h2 en hm)

/-- **C08_end_to_end.** If instantiation succeeds, then at every event, for every current valuation
of the providers' attributes, the transition is enabled iff every declared entry — evaluated as
Python evaluates the declared expression, each name worth the conjunction of its providers — has
its expected truth value; and the registered guards read the providers in Python's order. -/
theorem C08_end_to_end (S : Sem) (prov : Nat → List Nat) (entries : List (Src × Bool))
    (gs : List Guard) (hok : construct prov entries = .ok gs) (ρ : Env) :
    ((allLib S ρ gs).val = some true ↔
      ∀ g ∈ sourceGuards entries, passes S (envOf prov ρ) g = true) ∧
    firstReads (allLib S ρ gs).reads =
      ((untilFail S (envOf prov ρ) (sourceGuards entries)).flatMap
        (fun g => (evalPy S (envOf prov ρ) g.e).reads)).flatMap (fun n => provReads ρ (prov n)) := by
  rcases construct_spec prov entries with ⟨h1, _⟩ | ⟨h1, _⟩
  · rw [h1] at hok; cases hok
  · rw [h1] at hok
    simp only [Verdict.ok.injEq] at hok
    subst hok
    have hs := allLib_subst S prov ρ (sourceGuards entries)
    have hc := C08_guard_conj S (envOf prov ρ) (sourceGuards entries)
    rw [hs.1, hs.2, firstReads_expand, hc.1, hc.2.2]
    exact ⟨Iff.rfl, rfl⟩

/-- non-vacuity: name 0 has providers (slots) 10 and 11, name 1 has none, name 2 has slot 12.
`cond="n0 and n1"` → InvalidDefinition; unparsable text → InvalidDefinition;
`cond="n0", unless="n2"` → ok with the conjunction over both providers of n0. -/
example :
    let prov : Nat → List Nat := fun n => if n = 0 then [10, 11] else if n = 2 then [12] else []
    (match construct prov [(.parsed (.and (.name 0) (.name 1)), true)] with
      | .invalidDefinition => true | .ok _ => false) = true ∧
    (match construct prov [(.parsed (.name 0), true), (.unparsable, false)] with
      | .invalidDefinition => true | .ok _ => false) = true ∧
    (match construct prov [(.parsed (.name 0), true), (.parsed (.name 2), false)] with
      | .invalidDefinition => false
      | .ok gs =>
        (allLib pySem (fun s => if s = 12 then .int 0 else .int 1) gs).val == some true &&
        (allLib pySem (fun s => if s = 11 then .none else if s = 12 then .int 0 else .int 1) gs).val == some false) = true := by
  decide

end SMV.GExpr
