import SMV.Lemmas.Ext
/-!
# C03 — Run-to-completion: nested events are queued, FIFO, never interleaved

Trigger ids are allocated at *send* time from a counter. "Events run one at a time in the order
they were sent, and an event sent from inside a callback does not start before the transition in
progress has finished" is therefore: **the trigger ids along the callback log never decrease** —
every event's entries form one contiguous block and the blocks are in send order.
-/
namespace SMV

/-- invariant of run-to-completion processing -/
def Inv (c : Cfg) : Prop :=
  (c.log.map Entry.tid).Pairwise (· ≤ ·) ∧
  (c.queue.map Trigger.tid).Pairwise (· < ·) ∧
  (∀ e ∈ c.log, ∀ q ∈ c.queue, e.tid < q.tid) ∧
  (∀ q ∈ c.queue, q.tid < c.nextTid) ∧
  (∀ e ∈ c.log, e.tid < c.nextTid)

theorem inv_locked (c : Cfg) (b : Bool) : Inv { c with locked := b } ↔ Inv c := Iff.rfl

theorem inv_of_ext {h : Trigger} {q : List Trigger} {c c' : Cfg}
    (hq : c.queue = h :: q) (hinv : Inv c) (hext : Ext h.tid { c with queue := q } c') : Inv c' := by
  obtain ⟨hlog, hqueue, hlq, hqn, hln⟩ := hinv
  obtain ⟨⟨es, hl, hes⟩, ⟨qs, hq', hqs⟩, hmono, _⟩ := hext
  simp only at hl hq' hqs hmono
  rw [hq] at hqueue hlq hqn
  simp only [List.map_cons, List.pairwise_cons, List.mem_map, forall_exists_index, and_imp,
    forall_apply_eq_imp_iff₂, List.mem_cons, forall_eq_or_imp] at hqueue hlq hqn
  have hqsmem : ∀ x ∈ qs, c.nextTid ≤ x.tid := by
    intro x hx
    have : x.tid ∈ qs.map (·.tid) := List.mem_map_of_mem hx
    rw [hqs] at this
    exact (List.mem_range'_1.mp this).1
  have hqsmem2 : ∀ x ∈ qs, x.tid < c'.nextTid := by
    intro x hx
    have : x.tid ∈ qs.map (·.tid) := List.mem_map_of_mem hx
    rw [hqs] at this
    have := (List.mem_range'_1.mp this).2
    omega
  refine ⟨?_, ?_, ?_, ?_, ?_⟩
  · rw [hl, List.map_append, List.pairwise_append]
    refine ⟨hlog, ?_, ?_⟩
    · rw [List.pairwise_map]
      exact List.pairwise_of_forall_mem_list
        (fun a ha b hb => by rw [hes a ha, hes b hb]; exact Nat.le_refl _)
    · intro a ha b hb
      simp only [List.mem_map] at ha hb
      obtain ⟨e, he, rfl⟩ := ha
      obtain ⟨e', he', rfl⟩ := hb
      rw [hes e' he']
      exact Nat.le_of_lt (hlq e he).1
  · rw [hq', List.map_append, List.pairwise_append]
    refine ⟨hqueue.2, ?_, ?_⟩
    · rw [hqs]; exact List.pairwise_lt_range'
    · intro a ha b hb
      simp only [List.mem_map] at ha hb
      obtain ⟨x, hx, rfl⟩ := ha
      obtain ⟨y, hy, rfl⟩ := hb
      have := hqn.2 x hx
      have := hqsmem y hy
      omega
  · intro e he x hx
    rw [hl] at he; rw [hq'] at hx
    rcases List.mem_append.mp he with he | he <;> rcases List.mem_append.mp hx with hx | hx
    · exact (hlq e he).2 x hx
    · have := hln e he; have := hqsmem x hx; omega
    · rw [hes e he]; exact hqueue.1 x hx
    · rw [hes e he]; have := hqn.1; have := hqsmem x hx; omega
  · intro x hx
    rw [hq'] at hx
    rcases List.mem_append.mp hx with hx | hx
    · have := hqn.2 x hx; omega
    · exact hqsmem2 x hx
  · intro e he
    rw [hl] at he
    rcases List.mem_append.mp he with he | he
    · have := hln e he; omega
    · rw [hes e he]; have := hqn.1; omega

theorem inv_clear_queue {c : Cfg} (h : Inv c) : Inv { c with queue := [] } := by
  obtain ⟨a, _, _, _, e⟩ := h
  exact ⟨a, by simp, by simp, by simp, e⟩

theorem drainStep_inv (m : Machine) (c : Cfg) (h : Inv c) : Inv (drainStep m c) := by
  unfold drainStep
  split
  · exact h
  · rename_i t q hq
    have hext := trigger_ext m t { c with queue := q }
    have := inv_of_ext hq h hext
    split
    · rename_i cfg' _ heq; rw [heq] at this; exact this
    · rename_i cfg' _ heq; rw [heq] at this; exact inv_clear_queue this

theorem iter_inv (m : Machine) (n : Nat) (c : Cfg) (h : Inv c) : Inv (iter (drainStep m) n c) := by
  induction n generalizing c with
  | zero => exact h
  | succ n ih => exact ih _ (drainStep_inv m c h)

/-- **C03 (FIFO, no interleaving), loop form.** From any configuration satisfying the invariant,
after any number of iterations of the drain loop the trigger ids along the log never decrease:
for every placement and fan-out of nested sends and every chain length. -/
theorem C03_fifo_no_interleave (m : Machine) (c : Cfg) (h : Inv c) (n : Nat) :
    ((iter (drainStep m) n c).log.map Entry.tid).Pairwise (· ≤ ·) :=
  (iter_inv m n c h).1

/-- the drain loop of `processing_loop` is an iteration of `drainStep` -/
theorem drainLoop_iter (m : Machine) (fuel : Nat) (first : Option Res) (c : Cfg) :
    ∃ k, (drainLoop m fuel first c).1 = iter (drainStep m) k c := by
  induction fuel generalizing first c with
  | zero =>
    refine ⟨0, ?_⟩
    unfold drainLoop
    split <;> rfl
  | succ n ih =>
    unfold drainLoop
    split
    · exact ⟨0, rfl⟩
    · rename_i t q hq
      split
      · rename_i cfg' r heq
        obtain ⟨k, hk⟩ := ih (orFirst first r) cfg'
        refine ⟨k + 1, ?_⟩
        rw [hk]
        show _ = iter (drainStep m) k (drainStep m c)
        congr 1
        unfold drainStep
        rw [hq]; simp only; rw [heq]
      · rename_i cfg' e heq
        refine ⟨1, ?_⟩
        show _ = iter (drainStep m) 0 (drainStep m c)
        unfold drainStep iter
        rw [hq]; simp only; rw [heq]

theorem drainLoop_inv (m : Machine) (fuel : Nat) (first : Option Res) (c : Cfg) (h : Inv c) :
    Inv (drainLoop m fuel first c).1 := by
  obtain ⟨k, hk⟩ := drainLoop_iter m fuel first c
  rw [hk]; exact iter_inv m k c h

theorem processRtc_inv (m : Machine) (fuel : Nat) : Pres Inv (processRtc m fuel) := by
  intro c h
  unfold processRtc
  split
  · exact h
  · exact (inv_locked _ _).mpr (drainLoop_inv m fuel none _ ((inv_locked c true).mpr h))

theorem enqueue_inv (e : EventId) : Pres Inv (enqueue e) := by
  intro c h
  obtain ⟨a, b, d, f, g⟩ := h
  simp only [enqueue, EM.modify]
  refine ⟨a, ?_, ?_, ?_, ?_⟩
  · rw [List.map_append, List.pairwise_append]
    refine ⟨b, by simp, ?_⟩
    intro x hx y hy
    simp only [List.mem_map] at hx
    obtain ⟨q, hq, rfl⟩ := hx
    simp at hy; subst hy
    exact f q hq
  · intro x hx q hq
    rcases List.mem_append.mp hq with hq | hq
    · exact d x hx q hq
    · simp at hq; subst hq; exact g x hx
  · intro q hq
    show q.tid < c.nextTid + 1
    rcases List.mem_append.mp hq with hq | hq
    · have := f q hq; omega
    · simp at hq; subst hq; simp
  · intro x hx
    show x.tid < c.nextTid + 1
    have := g x hx; omega

theorem enqueueActivation_inv : Pres Inv enqueueActivation := by
  intro c h
  obtain ⟨a, b, d, f, g⟩ := h
  simp only [enqueueActivation, EM.modify]
  refine ⟨a, ?_, ?_, ?_, ?_⟩
  · rw [List.map_append, List.pairwise_append]
    refine ⟨b, by simp, ?_⟩
    intro x hx y hy
    simp only [List.mem_map] at hx
    obtain ⟨q, hq, rfl⟩ := hx
    simp at hy; subst hy
    exact f q hq
  · intro x hx q hq
    rcases List.mem_append.mp hq with hq | hq
    · exact d x hx q hq
    · simp at hq; subst hq; exact g x hx
  · intro q hq
    show q.tid < c.nextTid + 1
    rcases List.mem_append.mp hq with hq | hq
    · have := f q hq; omega
    · simp at hq; subst hq; simp
  · intro x hx
    show x.tid < c.nextTid + 1
    have := g x hx; omega

theorem start_inv : Pres Inv start := by
  unfold start
  refine Pres.bind Pres.get fun cfg => ?_
  split
  · exact enqueueActivation_inv
  · exact Pres.pure _

theorem process_inv (m : Machine) (kind : Kind) (fuel : Nat) :
    Pres Inv (process m { rtc := true, kind := kind } fuel) := by
  simp only [process]; exact processRtc_inv m fuel

/-- every operation of a run-to-completion machine (sync or async engine) keeps the invariant -/
theorem stepOp_inv (m : Machine) (kind : Kind) (fuel : Nat) (op : Op) :
    Pres Inv (stepOp m { rtc := true, kind := kind } fuel op) := by
  cases op with
  | construct =>
    unfold stepOp construct
    refine Pres.bind ?_ fun _ => Pres.pure _
    split
    · exact Pres.throw _
    · refine Pres.bind start_inv fun _ => ?_
      split
      · exact Pres.bind (process_inv m kind fuel) fun _ => Pres.pure _
      · exact Pres.pure _
  | send e =>
    unfold stepOp send
    exact Pres.bind (enqueue_inv e) fun _ => process_inv m kind fuel
  | activate => exact process_inv m kind fuel

theorem runOps_inv (m : Machine) (kind : Kind) (fuel : Nat) (ops : List Op) (c : Cfg) (h : Inv c) :
    Inv (runOps m { rtc := true, kind := kind } fuel ops c) := by
  induction ops generalizing c with
  | nil => exact h
  | cons op ops ih => exact ih _ (stepOp_inv m kind fuel op c h)

theorem inv_fresh (cur : Option Val) : Inv { cur := cur } := by
  simp [Inv]

theorem inv_cur (c : Cfg) (v : Option Val) : Inv { c with cur := v } ↔ Inv c := Iff.rfl

theorem inv_requeue (c : Cfg) (h : Inv c) : Inv { c with queue := [], locked := false } := by
  obtain ⟨a, _, _, _, e⟩ := h
  exact ⟨a, by simp, by simp, by simp, e⟩

/-- every step of a general history keeps the invariant, whatever machine is in force -/
theorem stepH_inv (m : Machine) (kind : Kind) (fuel : Nat) (h : HOp) (c : Cfg) (hc : Inv c) :
    Inv (stepH m { rtc := true, kind := kind } fuel h c) := by
  cases h with
  | op x => exact stepOp_inv m kind fuel x c hc
  | write v => exact (inv_cur c v).mpr hc
  | reconstruct =>
    have := stepOp_inv m kind fuel .construct _ (inv_requeue c hc)
    simp only [stepOp, EM.bind_apply] at this
    show Inv (construct m _ fuel _).1
    revert this
    cases construct m { rtc := true, kind := kind } fuel { c with queue := [], locked := false } with
    | mk c' r => cases r <;> exact fun h => h

theorem runHist_inv (kind : Kind) (fuel : Nat) (hist : List (Machine × HOp)) (c : Cfg) (h : Inv c) :
    Inv (runHist { rtc := true, kind := kind } fuel hist c) := by
  induction hist generalizing c with
  | nil => exact h
  | cons x rest ih =>
    obtain ⟨m, o⟩ := x
    exact ih _ (stepH_inv m kind fuel o c h)

/-- **C03 (FIFO, no interleaving), history form.** For every machine, every callback behaviour
(any placement, fan-out and depth of nested sends, failing callbacks included), either engine, and
every history of constructions, sends and activations issued from outside callbacks, the trigger
ids along the callback log never decrease. -/
theorem C03_history (m : Machine) (kind : Kind) (fuel : Nat) (cur : Option Val) (ops : List Op) :
    ((runOps m { rtc := true, kind := kind } fuel ops { cur := cur }).log.map Entry.tid).Pairwise (· ≤ ·) :=
  (runOps_inv m kind fuel ops _ (inv_fresh cur)).1

/-- **C03, general histories.** The same for histories in which the machine itself changes between
operations (listeners attached late, options assigned after construction), somebody else writes the model
field, and the machine object is re-created over the same model (restart, `deepcopy`, pickle). -/
theorem C03_history_general (kind : Kind) (fuel : Nat) (cur : Option Val) (hist : List (Machine × HOp)) :
    ((runHist { rtc := true, kind := kind } fuel hist { cur := cur }).log.map Entry.tid).Pairwise (· ≤ ·) :=
  (runHist_inv kind fuel hist _ (inv_fresh cur)).1

/-- In run-to-completion mode a nested `send` returns `None` to the callback. -/
theorem C03_nested_returns_none (e : EventId) (c : Cfg) : (nestedRtc e c).2 = .ok .none := rfl

/-- … and does nothing but append the event to the queue under a fresh id. -/
theorem C03_nested_only_enqueues (e : EventId) (c : Cfg) :
    (nestedRtc e c).1 = { c with queue := c.queue ++ [{ tid := c.nextTid, event := e }],
                                  nextTid := c.nextTid + 1 } := rfl

end SMV
