import SMV.Props.C01
/-!
# C13 — send(), event methods and bound events are one and the same entry point

In the model every calling style elaborates to `send e` (that the real styles do is what the
correspondence checks). Proved here: `allowed_events` lists exactly once each, in declaration
order, the events that have a transition leaving the current state; `events` lists every declared
event; an event bound to no transition of the current state — in particular any name that is not a
declared event — is "not allowed": no callback runs, nothing is written, and the outcome is
`TransitionNotAllowed(event, state)` or `None` when tolerated.
-/
namespace SMV

theorem mem_dedupe (l : List Nat) (x : Nat) : x ∈ dedupe l ↔ x ∈ l := by
  induction l with
  | nil => simp [dedupe]
  | cons a l ih =>
    simp only [dedupe, List.mem_cons, List.mem_filter, ih]
    by_cases h : x = a <;> simp [h]

theorem nodup_dedupe (l : List Nat) : (dedupe l).Nodup := by
  induction l with
  | nil => simp [dedupe]
  | cons a l ih =>
    simp only [dedupe, List.nodup_cons, List.mem_filter]
    exact ⟨by simp, ih.filter _⟩

/-- `dedupe` keeps first occurrences in order: it is a sublist -/
theorem dedupe_sublist (l : List Nat) : (dedupe l).Sublist l := by
  induction l with
  | nil => exact List.Sublist.slnil
  | cons a l ih =>
    simp only [dedupe]
    exact List.Sublist.cons_cons a ((List.filter_sublist).trans ih)

/-- the first element of the list stays first -/
theorem dedupe_head (a : Nat) (l : List Nat) : (dedupe (a :: l)).head? = some a := rfl

/-- **C13 (allowed_events).** No duplicates; an event is listed iff some transition leaving the
state is bound to it; the order is that of first use in the state's transition list. -/
theorem C13_allowed_events (m : Machine) (s : StateId) :
    (allowedEvents m s).Nodup ∧
    (∀ e, e ∈ allowedEvents m s ↔ ∃ tr ∈ out m s, e ∈ tr.events) ∧
    (allowedEvents m s).Sublist ((out m s).flatMap (·.events)) := by
  refine ⟨nodup_dedupe _, fun e => ?_, dedupe_sublist _⟩
  simp [allowedEvents, mem_dedupe, List.mem_flatMap]

/-- **C13 (events).** Every event bound to any transition of any state is listed, once. -/
theorem C13_events_all (m : Machine) :
    (allEvents m).Nodup ∧ ∀ e, e ∈ allEvents m ↔ ∃ sd ∈ m.states, ∃ tr ∈ sd.trans, e ∈ tr.events := by
  refine ⟨nodup_dedupe _, fun e => ?_⟩
  simp [allEvents, mem_dedupe, List.mem_flatMap]

/-- no transition of the list is bound to the event: the candidate loop does nothing at all —
for every handler (both processing modes), every configuration -/
theorem tryCands_no_match (h : Nested) (m : Machine) (t : Trigger) (trs : List Transn)
    (hno : ∀ tr ∈ trs, tr.events.contains t.event = false) (c : Cfg) :
    tryCands h m t trs c = (c, .ok none) := by
  induction trs with
  | nil => rfl
  | cons tr rest ih =>
    rw [tryCands_cons_skip h m t tr rest (hno tr (by simp))]
    exact ih fun tr' h' => hno tr' (by simp [h'])

/-- **C13 (unknown or not-allowed event).** If no transition leaving the current state is bound to
the event (e.g. the name is not a declared event at all), processing it changes *nothing* in the
configuration (no callback, no write, queue and counters untouched) and yields
`TransitionNotAllowed(event, state)`, or `None` under `allow_event_without_transition`. This
includes the reserved name `__initial__` sent by anybody once the machine holds a state (D23 repaired; `hi`: the
trigger is not the engine's own activation trigger, which is a no-op then — `C11_stale_activation`). -/
theorem C13_unknown (h : Nested) (m : Machine) (t : Trigger) (c : Cfg) (hi : t.internal = false)
    (hne : (t.event == initialEv) = false ∨ c.cur.isNone = false) (s : StateId) (hs : c.cur.bind (lookupState m) = some s)
    (hno : t.event ∉ allowedEvents m s) :
    trigger h m t c = (c, if m.allow then .ok (some .none) else .error (.notAllowed t.event s)) := by
  have hno' : ∀ tr ∈ out m s, tr.events.contains t.event = false := by
    intro tr htr
    have := (C13_allowed_events m s).2.1 t.event
    cases hc : tr.events.contains t.event with
    | false => rfl
    | true => exact absurd (this.2 ⟨tr, htr, by simpa using hc⟩) hno
  unfold trigger
  rw [bind_ok (x := EM.get) (c := c) (a := c) rfl]
  have hcond : (t.event == initialEv && c.cur.isNone) = false := by
    rcases hne with h1 | h1 <;> simp [h1]
  simp only [EM.get, hcond, hi, Bool.and_false, Bool.false_eq_true, if_false, hs]
  rw [bind_ok (a := none) (by rw [tryCands_no_match h m t _ hno' c])]
  rw [tryCands_no_match h m t _ hno' c]
  simp only
  split <;> rfl

example : dedupe [3, 1, 3, 2, 1] = [3, 1, 2] := by decide

end SMV
