import SMV.Model.Expr
/-!
# Guard text (C08): operator-spelling rewrite and the plain-name fast path

Model of `replace_operators` and of the head of `parse_boolean_expr` in
`statemachine/spec_parser.py`:

```
pattern = ("(?:[^"\\]|\\.)*"|'(?:[^'\\]|\\.)*')|\!(?!=)|\^|\bv\b        (fixed, commit bc23251)
pattern = \!(?!=)|\^|\bv\b                                               (as found, `fixed := false`)
replacements = {"!": " not ", "^": " and ", "v": " or "}; result `.strip()`ped   (fixed, commit c2f8974)
replacements = {"!": "not ", "^": " and ", "v": " or "}; not stripped           (as found)
a quoted span is kept as is

if expr.strip() == "": raise SyntaxError
if expr.isidentifier() and not iskeyword(expr): return variable_hook(expr)   (fixed, commit 9412e07)
if "!" not in expr and " " not in expr:        return variable_hook(expr)   (as found)
```

Two levels: tokens (`Tok`, `rewriteTok`) — what the rewrite is *meant* to do — and characters
(`replaceOperators`) — what `re.sub` does, as a left-to-right scanner with one character of
look-behind (`\b`) and one of look-ahead (`(?!=)`, `\b`). ASCII only: `\w` is `[A-Za-z0-9_]`
(the generator of the correspondence harness emits ASCII only). CPython's tokenizer is not modelled.
-/
namespace SMV.GExpr

/-! ## Token level -/

/-- tokens of the documented guard grammar -/
inductive Tok
  | ident (s : String)          -- a name (incl. `True`/`False`/`None`), not one of `not and or`
  | kwNot | kwAnd | kwOr        -- `not` `and` `or`
  | bang | caret                -- `!` `^`   (the alternate spelling of `or` is the identifier `v`)
  | cmp (c : Cmp)               -- `== != < <= > >=`
  | lpar | rpar
  | num (digits : String)       -- integer literal
  | strLit (body : String)      -- string literal, `body` = the raw text between and incl. the quotes
deriving DecidableEq, Repr, Inhabited

/-- the rewrite on one token -/
def rewriteTok : Tok → Tok
  | .bang => .kwNot
  | .caret => .kwAnd
  | .ident s => if s = "v" then .kwOr else .ident s
  | t => t

def rewriteToks (ts : List Tok) : List Tok := ts.map rewriteTok

/-- a token that is an alternate operator spelling -/
def isAlt : Tok → Bool
  | .bang | .caret => true
  | .ident s => s = "v"
  | _ => false

/-! ## Character level -/

/-- `\w` (ASCII) -/
def isWord (c : Char) : Bool := c.isAlphanum || c == '_'

def isQuote (c : Char) : Bool := c == '"' || c == '\''

/-- does `(?:[^q\\]|\\.)*q` match at the start of `cs` (the text after an opening quote `q`)?
`esc` = the previous character was an unpaired backslash (`.` does not match a newline). -/
def closes (q : Char) (esc : Bool) : List Char → Bool
  | [] => false
  | c :: cs =>
    if esc then (if c == '\n' then false else closes q false cs)
    else if c == q then true
    else if c == '\\' then closes q true cs
    else closes q false cs

def nextIsWord : List Char → Bool
  | [] => false
  | c :: _ => isWord c

def nextIsEq : List Char → Bool
  | [] => false
  | c :: _ => c == '='

/-- scanner state: in code (remembering whether the previous input character was a word character)
or inside a quoted span opened by `q` -/
inductive Mode
  | code (prevWord : Bool)
  | str (q : Char) (esc : Bool)
deriving DecidableEq, Repr, Inhabited

/-- `pattern.sub(match_func, expr)` as a scanner -/
def repl (fixed : Bool) : Mode → List Char → List Char
  | _, [] => []
  | .str q esc, c :: cs =>
    c :: (if esc then repl fixed (.str q false) cs
          else if c == q then repl fixed (.code false) cs
          else if c == '\\' then repl fixed (.str q true) cs
          else repl fixed (.str q false) cs)
  | .code pw, c :: cs =>
    if fixed && isQuote c && closes c false cs then c :: repl fixed (.str c false) cs
    else if c == '!' && !nextIsEq cs then
      (if fixed then " not ".toList else "not ".toList) ++ repl fixed (.code false) cs
    else if c == '^' then " and ".toList ++ repl fixed (.code false) cs
    else if c == 'v' && !pw && !nextIsWord cs then " or ".toList ++ repl fixed (.code true) cs
    else c :: repl fixed (.code (isWord c)) cs

/-- ASCII characters `str.strip()` removes -/
def pySpace (c : Char) : Bool :=
  c == ' ' || c == '\t' || c == '\n' || c == '\r' || c == '\x0b' || c == '\x0c'

/-- `str.strip()` -/
def strip (s : List Char) : List Char :=
  ((s.dropWhile pySpace).reverse.dropWhile pySpace).reverse

def replaceOperators (fixed : Bool) (s : List Char) : List Char :=
  if fixed then strip (repl fixed (.code false) s) else repl fixed (.code false) s

def pyKeywords : List String :=
  ["False", "None", "True", "and", "as", "assert", "async", "await", "break", "class", "continue",
   "def", "del", "elif", "else", "except", "finally", "for", "from", "global", "if", "import", "in",
   "is", "lambda", "nonlocal", "not", "or", "pass", "raise", "return", "try", "while", "with", "yield"]

/-- `str.isidentifier()` (ASCII) -/
def isIdentifier : List Char → Bool
  | [] => false
  | c :: cs => (c.isAlpha || c == '_') && cs.all isWord

def isBlank (s : List Char) : Bool := s.all pySpace

/-- the fast path of `parse_boolean_expr`: the whole text is taken as one name -/
def fastPath (fixed : Bool) (s : List Char) : Bool :=
  if fixed then isIdentifier s && !(pyKeywords.contains (String.ofList s))
  else !s.contains '!' && !s.contains ' '

/-- what `parse_boolean_expr` does with the text before CPython's parser sees it -/
inductive Prep
  | syntaxError                    -- blank text
  | name (s : List Char)           -- fast path: `variable_hook(expr)`
  | parse (s : List Char)          -- `ast.parse(replace_operators(expr), mode="eval")`
deriving DecidableEq, Repr, Inhabited

def prepare (fixed : Bool) (s : List Char) : Prep :=
  if isBlank s then .syntaxError
  else if fastPath fixed s then .name s
  else .parse (replaceOperators fixed s)

/-! ## Rendering tokens as text (for the theorem linking the two levels) -/

def cmpText : Cmp → List Char
  | .eq => "==".toList | .ne => "!=".toList | .lt => "<".toList
  | .le => "<=".toList | .gt => ">".toList | .ge => ">=".toList

/-- source text of a token -/
def tokText : Tok → List Char
  | .ident s => s.toList
  | .kwNot => "not".toList | .kwAnd => "and".toList | .kwOr => "or".toList
  | .bang => "!".toList | .caret => "^".toList
  | .cmp c => cmpText c
  | .lpar => "(".toList | .rpar => ")".toList
  | .num d => d.toList
  | .strLit b => b.toList

/-- what `replace_operators` writes for a token: the padded keyword for the three alternate
spellings, the token's own text otherwise -/
def tokTextR (t : Tok) : List Char :=
  match t with
  | .bang => " not ".toList
  | .caret => " and ".toList
  | .ident s => if s = "v" then " or ".toList else s.toList
  | t => tokText t

/-- tokens separated by the given separators (`seps[i]` follows token `i`; missing = empty) -/
def render (txt : Tok → List Char) : List Tok → List (List Char) → List Char
  | [], _ => []
  | t :: ts, [] => txt t ++ render txt ts []
  | t :: ts, s :: ss => txt t ++ s ++ render txt ts ss

end SMV.GExpr
