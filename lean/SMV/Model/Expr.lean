/-!
# Guard expressions (C08): library closure-tree semantics vs Python semantics

Model of `statemachine/spec_parser.py` (`build_expression`, `custom_and/or/not`,
`build_custom_operator`, `build_constant`), of the name resolution in
`statemachine/dispatcher.py` (`Listeners.build`, `_take_callback`: a name is looked up on every
provider `[machine, model, *listeners]`; several providers are combined by `reduce(custom_and, …)`;
a name nobody provides is recorded in `names_not_found` and replaced by `allways_true`), of
`CallbacksExecutor.all` / `CallbackWrapper.call` in `statemachine/callbacks.py`
(`bool(value) == expected_value`, stop at the first failing entry) and of the instantiation-time
check (`CallbacksRegistry.check` → `InvalidDefinition` in `StateMachine._register_callbacks`).

What is *not* modelled but trusted: CPython's tokenizer/parser (`ast.parse`) — the model starts
from the tree CPython built (`E`), so operator precedence is CPython's; rich comparison of values
(`Sem.cmp`, a parameter of every theorem; the driver instantiates it with `pyCmp`, Python's rules
for None/bool/int/float/str/list/plain objects); truthiness (`truthy`).

A name is read through an environment `ρ : Nat → V` that is fixed during ONE evaluation of one
guard list (guards are assumed not to change what other guards read while one event is being
decided) and arbitrary otherwise: every event re-reads the current values.

No imports: the driver `drv_expr` compiles natively.
-/
namespace SMV.GExpr

/-- Python values that guards are evaluated over (what the correspondence harness feeds).
`flt t` is the float `t/2` (exact halves are enough to exercise int/float/bool mixing),
`list n` is a list of `n` `None`s, `obj id t` a plain object whose `__bool__`/`__len__` says `t`. -/
inductive V
  | none
  | bool (b : Bool)
  | int (i : Int)
  | flt (twice : Int)
  | str (s : String)
  | list (n : Nat)
  | obj (id : Nat) (t : Bool)
  /-- `float("nan")`: truthy, unequal to everything (itself included), every ordering comparison false -/
  | nan
deriving DecidableEq, Repr, Inhabited

/-- `bool(x)` -/
def truthy : V → Bool
  | .none => false
  | .bool b => b
  | .int i => i != 0
  | .flt t => t != 0
  | .str s => s != ""
  | .list n => n != 0
  | .obj _ t => t
  | .nan => true

inductive Cmp | eq | ne | lt | le | gt | ge
deriving DecidableEq, Repr, Inhabited

/-- rich comparison on arbitrary values: a parameter. `none` = the comparison raises (`TypeError`). -/
structure Sem where
  cmp : Cmp → V → V → Option Bool

mutual
/-- the shape `ast.parse(…, mode="eval")` yields for the documented grammar; names are ids -/
inductive E
  | name (n : Nat)
  | const (v : V)
  | not (e : E)
  | and (a b : E)
  | or (a b : E)
  | cmp (first : E) (c : Chain)
/-- `ops`/`comparators` of an `ast.Compare`, non-empty -/
inductive Chain
  | last (op : Cmp) (r : E)
  | more (op : Cmp) (r : E) (c : Chain)
end

instance : Inhabited E := ⟨.const .none⟩

deriving instance DecidableEq for E, Chain

abbrev Env := Nat → V

/-- result of an evaluation: the value (`none` = an exception escaped) and the names read, in order;
the flag marks reads done by the library's *re-evaluation* of the middle operand of a chain. -/
structure R where
  val : Option V
  reads : List (Nat × Bool)
deriving Repr, Inhabited

/-- result of an evaluation by the reference semantics: value and the names read, in order -/
structure RP where
  val : Option V
  reads : List Nat
deriving Repr, Inhabited

mutual
/-- library: the closure tree built by `build_expression`.
`custom_and(l, r) = l() and r()`, `custom_or(l, r) = l() or r()`, `custom_not(p) = not p()`,
comparator `bool(op(l(), r()))`; the links of a chained comparison are combined by
`reduce(custom_and, links)`. -/
def evalLib (S : Sem) (ρ : Env) (re : Bool) : E → R
  | .name n => ⟨some (ρ n), [(n, re)]⟩
  | .const v => ⟨some v, []⟩
  | .not e =>
    let r := evalLib S ρ re e
    ⟨r.val.map (fun v => .bool (!truthy v)), r.reads⟩
  | .and a b =>
    let ra := evalLib S ρ re a
    match ra.val with
    | none => ra
    | some va =>
      if truthy va then let rb := evalLib S ρ re b; ⟨rb.val, ra.reads ++ rb.reads⟩ else ra
  | .or a b =>
    let ra := evalLib S ρ re a
    match ra.val with
    | none => ra
    | some va =>
      if truthy va then ra else let rb := evalLib S ρ re b; ⟨rb.val, ra.reads ++ rb.reads⟩
  | .cmp first c =>
    let rl := evalLib S ρ re first
    match rl.val with
    | none => rl
    | some lv => let rc := chainLib S ρ re lv c; ⟨rc.val, rl.reads ++ rc.reads⟩
/-- links after the first operand (whose value is `lv`); returns only the reads it adds.
Each link `op(left(), right())` evaluates both operands, so the right operand of one link is
evaluated *again* as the left operand of the next link (`re := true`). -/
def chainLib (S : Sem) (ρ : Env) (re : Bool) (lv : V) : Chain → R
  | .last op r =>
    let rr := evalLib S ρ re r
    match rr.val with
    | none => rr
    | some rv => ⟨(S.cmp op lv rv).map V.bool, rr.reads⟩
  | .more op r c =>
    let rr := evalLib S ρ re r
    match rr.val with
    | none => rr
    | some rv =>
      match S.cmp op lv rv with
      | none => ⟨none, rr.reads⟩
      | some false => ⟨some (.bool false), rr.reads⟩
      | some true =>
        let rr2 := evalLib S ρ true r                    -- re-evaluation by the next link
        match rr2.val with
        | none => ⟨none, rr.reads ++ rr2.reads⟩
        | some rv2 =>
          let rest := chainLib S ρ re rv2 c
          ⟨rest.val, rr.reads ++ rr2.reads ++ rest.reads⟩
end

mutual
/-- Python reference semantics (language reference 6.10–6.12): every operand at most once,
left to right, `and`/`or` return operand values, `not` a bool, `a < b < c` is `a < b and b < c`
with `b` evaluated once. -/
def evalPy (S : Sem) (ρ : Env) : E → RP
  | .name n => ⟨some (ρ n), [n]⟩
  | .const v => ⟨some v, []⟩
  | .not e =>
    let r := evalPy S ρ e
    ⟨r.val.map (fun v => .bool (!truthy v)), r.reads⟩
  | .and a b =>
    let ra := evalPy S ρ a
    match ra.val with
    | none => ra
    | some va =>
      if truthy va then let rb := evalPy S ρ b; ⟨rb.val, ra.reads ++ rb.reads⟩ else ra
  | .or a b =>
    let ra := evalPy S ρ a
    match ra.val with
    | none => ra
    | some va =>
      if truthy va then ra else let rb := evalPy S ρ b; ⟨rb.val, ra.reads ++ rb.reads⟩
  | .cmp first c =>
    let rl := evalPy S ρ first
    match rl.val with
    | none => rl
    | some lv => let rc := chainPy S ρ lv c; ⟨rc.val, rl.reads ++ rc.reads⟩
def chainPy (S : Sem) (ρ : Env) (lv : V) : Chain → RP
  | .last op r =>
    let rr := evalPy S ρ r
    match rr.val with
    | none => rr
    | some rv => ⟨(S.cmp op lv rv).map V.bool, rr.reads⟩
  | .more op r c =>
    let rr := evalPy S ρ r
    match rr.val with
    | none => rr
    | some rv =>
      match S.cmp op lv rv with
      | none => ⟨none, rr.reads⟩
      | some false => ⟨some (.bool false), rr.reads⟩
      | some true =>
        let rest := chainPy S ρ rv c
        ⟨rest.val, rr.reads ++ rest.reads⟩
end

/-- the reads with the library's chain re-reads erased -/
def firstReads (l : List (Nat × Bool)) : List Nat := (l.filter (fun x => !x.2)).map (·.1)

mutual
/-- names occurring in an expression, left to right -/
def names : E → List Nat
  | .name n => [n]
  | .const _ => []
  | .not e => names e
  | .and a b => names a ++ names b
  | .or a b => names a ++ names b
  | .cmp f c => names f ++ chainNames c
def chainNames : Chain → List Nat
  | .last _ r => names r
  | .more _ r c => names r ++ chainNames c
end

/-! ## Providers: `Listeners._take_callback` -/

/-- `reduce(custom_and, [c₁, …, c_k])` over the provider slots of one name;
no provider: `allways_true` (and the name is recorded, see `unknowns`). -/
def provExpr : List Nat → E
  | [] => .const (.bool true)
  | s :: ss => ss.foldl (fun acc t => .and acc (.name t)) (.name s)

/-- value of `s₁ and s₂ and … and s_k` in Python: the first falsy one, else the last -/
def andAll (ρ : Env) : List Nat → V
  | [] => .bool true
  | [s] => ρ s
  | s :: t :: ss => if truthy (ρ s) then andAll ρ (t :: ss) else ρ s

/-- slots read by `s₁ and … and s_k`: up to and including the first falsy one -/
def provReads (ρ : Env) : List Nat → List Nat
  | [] => []
  | [s] => [s]
  | s :: t :: ss => if truthy (ρ s) then s :: provReads ρ (t :: ss) else [s]

mutual
/-- what `build_expression` builds with `variable_hook = _take_callback`: every Name node becomes
the conjunction of its providers' callbacks -/
def subst (prov : Nat → List Nat) : E → E
  | .name n => provExpr (prov n)
  | .const v => .const v
  | .not e => .not (subst prov e)
  | .and a b => .and (subst prov a) (subst prov b)
  | .or a b => .or (subst prov a) (subst prov b)
  | .cmp f c => .cmp (subst prov f) (substChain prov c)
def substChain (prov : Nat → List Nat) : Chain → Chain
  | .last op r => .last op (subst prov r)
  | .more op r c => .more op (subst prov r) (substChain prov c)
end

/-- `names_not_found` -/
def unknowns (prov : Nat → List Nat) (e : E) : List Nat :=
  (names e).filter (fun n => (prov n).isEmpty)

/-- the environment the source expression is evaluated in: a name is worth the conjunction of
what its providers say -/
def envOf (prov : Nat → List Nat) (ρ : Env) : Env := fun n => andAll ρ (prov n)

/-! ## Guard lists: `CallbacksExecutor.all` over `CallbackWrapper.call` -/

/-- one `cond` (`expected = true`) or `unless` (`expected = false`) entry -/
structure Guard where
  e : E
  expected : Bool
deriving DecidableEq

/-- result of deciding one transition: `some true` enabled, `some false` not enabled,
`none` an exception escaped from a guard -/
structure GR where
  val : Option Bool
  reads : List (Nat × Bool)
deriving Repr, Inhabited

structure GRP where
  val : Option Bool
  reads : List Nat
deriving Repr, Inhabited

/-- `for c in executor: if not (bool(c()) == c.expected_value): return False; return True` -/
def allLib (S : Sem) (ρ : Env) : List Guard → GR
  | [] => ⟨some true, []⟩
  | g :: gs =>
    let r := evalLib S ρ false g.e
    match r.val with
    | none => ⟨none, r.reads⟩
    | some v =>
      if truthy v == g.expected then
        let rest := allLib S ρ gs
        ⟨rest.val, r.reads ++ rest.reads⟩
      else ⟨some false, r.reads⟩

/-- the same loop with every entry evaluated as Python evaluates it -/
def allPy (S : Sem) (ρ : Env) : List Guard → GRP
  | [] => ⟨some true, []⟩
  | g :: gs =>
    let r := evalPy S ρ g.e
    match r.val with
    | none => ⟨none, r.reads⟩
    | some v =>
      if truthy v == g.expected then
        let rest := allPy S ρ gs
        ⟨rest.val, r.reads ++ rest.reads⟩
      else ⟨some false, r.reads⟩

/-- Spec: the entry, evaluated by Python, is truthy (cond) / falsy (unless) -/
def passes (S : Sem) (ρ : Env) (g : Guard) : Bool :=
  (evalPy S ρ g.e).val.map truthy == some g.expected

/-- Spec: the entries up to and including the first one that does not pass -/
def untilFail (S : Sem) (ρ : Env) : List Guard → List Guard
  | [] => []
  | g :: gs => if passes S ρ g then g :: untilFail S ρ gs else [g]

/-- `Transition(cond=…, unless=…)`: all `cond` entries first, then all `unless` entries
(same priority, stable `insort`). -/
def guardsOf (conds unlesses : List E) : List Guard :=
  conds.map (⟨·, true⟩) ++ unlesses.map (⟨·, false⟩)

/-! ## Instantiation: `Listeners.build` + `CallbacksRegistry.check` -/

/-- what `ast.parse` (trusted) made of the rewritten text of one entry -/
inductive Src
  | unparsable            -- `SyntaxError`
  | parsed (e : E)
deriving Inhabited

inductive Verdict
  | ok (guards : List Guard)     -- the registered, fully resolved guard callbacks
  | invalidDefinition

/-- `Listeners.build` for one entry: `none` = `InvalidDefinition` raised at once (parse failure);
`some none` = nothing registered because some name was not found (`names_not_found` recorded);
`some (some g)` = the resolved callback. -/
def build (prov : Nat → List Nat) (en : Src × Bool) : Option (Option Guard) :=
  match en.1 with
  | .unparsable => none
  | .parsed e => some (if (unknowns prov e).isEmpty then some ⟨subst prov e, en.2⟩ else none)

def buildAll (prov : Nat → List Nat) : List (Src × Bool) → Option (List (Option Guard))
  | [] => some []
  | en :: ens =>
    match build prov en with
    | none => none
    | some r => (buildAll prov ens).map (r :: ·)

/-- `CallbacksRegistry.check`: every declared entry must have its callback -/
def checkAll : List (Option Guard) → Option (List Guard)
  | [] => some []
  | none :: _ => none
  | some g :: rest => (checkAll rest).map (g :: ·)

/-- `StateMachine.__init__` as far as guards are concerned -/
def construct (prov : Nat → List Nat) (entries : List (Src × Bool)) : Verdict :=
  match buildAll prov entries with
  | none => .invalidDefinition
  | some regs =>
    match checkAll regs with
    | none => .invalidDefinition
    | some gs => .ok gs

/-- `add_listener(*ls)` after construction (`allowed_references = SPECS_SAFE`): every entry given *by name*
(`byName`) is built again over the providers of that pass only; an entry some name of which is not provided
there registers nothing (no error, `names_not_found` is only recorded); what resolves is appended to the executor -/
def lateGuards (prov : Nat → List Nat) (entries : List (Src × Bool × Bool)) : List Guard :=
  entries.filterMap fun en =>
    match en.1, en.2.2 with
    | .parsed e, true => if (unknowns prov e).isEmpty then some ⟨subst prov e, en.2.1⟩ else none
    | _, _ => none

/-- `CallbacksExecutor.add`: an entry whose key was already seen — the resolved expression (the key of an expression is
built from the keys `name@id(provider)` of its names along its structure) together with the expected value — is
ignored; a new one is appended (same priority, stable `insort`) -/
def addNew : List Guard → List Guard → List Guard
  | acc, [] => acc
  | acc, g :: gs => if acc.contains g then addNew acc gs else addNew (acc ++ [g]) gs

/-- construction over `prov`, then one attachment pass per element of `lates` -/
def constructPasses (prov : Nat → List Nat) (lates : List (Nat → List Nat)) (entries : List (Src × Bool × Bool)) :
    Verdict :=
  match construct prov (entries.map fun en => (en.1, en.2.1)) with
  | .ok gs => .ok (lates.foldl (fun acc p => addNew acc (lateGuards p entries)) gs)
  | .invalidDefinition => .invalidDefinition

/-- the declared entries as Python expressions (for the specification side) -/
def sourceGuards : List (Src × Bool) → List Guard
  | [] => []
  | (.unparsable, _) :: ens => sourceGuards ens
  | (.parsed e, x) :: ens => ⟨e, x⟩ :: sourceGuards ens

/-! ## Python's comparison rules for the value universe `V` (driver instance of `Sem`) -/

/-- numeric tower bool ⊂ int ⊂ float, as twice the value -/
def num : V → Option Int
  | .bool b => some (if b then 2 else 0)
  | .int i => some (2 * i)
  | .flt t => some t
  | _ => none

def ordOf (op : Cmp) (lt eq : Bool) : Bool :=
  match op with
  | .eq => eq | .ne => !eq | .lt => lt | .le => lt || eq | .gt => !(lt || eq) | .ge => !lt

def isOrder : Cmp → Bool
  | .eq | .ne => false
  | _ => true

/-- `==`/`!=` never raise (identity fallback); ordering raises `TypeError` across kinds -/
def isNan : V → Bool
  | .nan => true
  | _ => false

def pyCmp (op : Cmp) (a b : V) : Option Bool :=
  if (isNan a && (isNan b || (num b).isSome)) || (isNan b && (num a).isSome) then
    -- a comparison of numbers one of which is NaN: `!=` holds, nothing else does (never raises)
    some (op == .ne)
  else
  match num a, num b with
  | some x, some y => some (ordOf op (x < y) (x == y))
  | _, _ =>
    match a, b with
    | .str s, .str t => some (ordOf op (s < t) (s == t))
    | .list n, .list m => some (ordOf op (n < m) (n == m))
    | .none, .none => if isOrder op then none else some (ordOf op false true)
    | .obj i _, .obj j _ => if isOrder op then none else some (ordOf op false (i == j))
    | _, _ => if isOrder op then none else some (ordOf op false false)

def pySem : Sem := ⟨pyCmp⟩

end SMV.GExpr
