import SMV.Model.Core
/-!
# The model field as the single source of truth (C10)

Model of `statemachine/statemachine.py` (`__init__`: the model object, `_get_initial_state`,
`current_state_value` getter / checked setter, `current_state` getter / setter, `send` as far as
the state is concerned), `statemachine/state.py` (`InstanceState.is_active`,
`State.__eq__`), `statemachine/engines/base.py` (`start`), `statemachine/model.py`.

What is modelled
* The state lives in **one cell** `Option Val`: the attribute `state_field` of the model object,
  reached only through `getattr(model, field, None)` / `setattr(model, field, v)`. `none` is
  Python's `None` (also: the attribute is missing).
* Two objects can exist: the object the **user** supplied (`userCell`) and a `Model()` the library
  made itself (`ownCell`). `usesUser` says which one `sm.model` is. The repaired constructor
  (`fixed := true`, `model if model is not None else Model()`) always keeps the user's object; the
  old one (`fixed := false`, `model if model else Model()`) tests its truthiness.
* `states_map` is the dict `value ↦ state` filled in declaration order (`lookup`: a later state
  with an equal value overwrites an earlier one, as a dict does). States are identified by their
  index in declaration order (`State.__eq__` compares name and id; ids are unique per class).
* Values are opaque tokens: nothing in this file inspects a `Val` except by equality. The one
  exception is `Mach.truthy` (Python's `bool(v)`), consulted **only** by the as-is variant
  (`fixed := false`) of `_get_initial_state`, so that the old defect can be exhibited.
* An event (`send`) is the part of `_trigger`/`_activate` that touches the state: read
  `current_state` (raises `InvalidStateValue` when the cell holds nothing / an unmapped value), take
  the first transition of that state declared for the event, assign `current_state = target`
  (the checked setter), else `TransitionNotAllowed` unless tolerated. Guards and callbacks are the
  subject of `SMV.Model.Engine`; its `setState` is this assignment.

Trusted / not modelled: Python attribute lookup (`getattr`/`setattr`, properties, class-level
defaults — all collapse to "a cell"), dict lookup by `==`/`hash` (tokens are equal iff the Python
values are equal *and* the harness never puts `==`-colliding values such as `0`/`False` in one
machine), unhashable values.
-/
namespace SMV.Store

/-- a transition as far as the state is concerned -/
structure Tr where
  src : StateId
  ev  : EventId
  tgt : StateId
deriving Repr, DecidableEq, Inhabited

/-- the class definition as far as C10 needs it -/
structure Mach where
  /-- `values[i]` = `value` of the `i`-th declared state -/
  values  : List Val
  /-- the state declared `initial=True` -/
  initial : StateId
  /-- transitions in declaration order -/
  trans   : List Tr := []
  /-- `allow_event_without_transition` -/
  allow   : Bool := false
  /-- Python's `bool(v)`; used only by the as-is (`fixed := false`) constructor -/
  truthy  : Val → Bool := fun _ => true

def Mach.n (m : Mach) : Nat := m.values.length

/-- `state.value` of the `s`-th state -/
def valueOf (m : Mach) (s : StateId) : Val := m.values.getD s 0

/-- dict lookup in a map filled left to right from index `i`: the last equal key wins -/
def lookupFrom : List Val → Nat → Val → Option StateId
  | [], _, _ => none
  | x :: xs, i, v =>
    match lookupFrom xs (i + 1) v with
    | some j => some j
    | none => if x = v then some i else none

/-- `states_map.get(v)` -/
def lookup (m : Mach) (v : Val) : Option StateId := lookupFrom m.values 0 v

/-- `v in states_map` -/
def mapped (m : Mach) (v : Val) : Bool := (lookup m v).isSome

/-- the two objects that may hold the state, and which of them `sm.model` is -/
structure Store where
  /-- the user passed a model object to the constructor -/
  supplied : Bool := false
  /-- `getattr(user_model, field, None)` (meaningful iff `supplied`) -/
  userCell : Option Val := none
  /-- the field of the `Model()` the library created (meaningful iff `!usesUser`) -/
  ownCell  : Option Val := none
  /-- `sm.model is user_model` -/
  usesUser : Bool := false
deriving Repr, DecidableEq, Inhabited

/-- `getattr(sm.model, sm.state_field, None)` -/
def Store.cell (st : Store) : Option Val := if st.usesUser then st.userCell else st.ownCell

/-- `setattr(sm.model, sm.state_field, v)` -/
def Store.setCell (st : Store) (v : Option Val) : Store :=
  if st.usesUser then { st with userCell := v } else { st with ownCell := v }

/-- what the *user* sees in the object they hold: their own object if they supplied one,
otherwise `sm.model` -/
def Store.userView (st : Store) : Option Val := if st.supplied then st.userCell else st.cell

/-- the user writes the attribute directly: `setattr(obj, field, v)` on the object they hold -/
def Store.userWrite (st : Store) (v : Option Val) : Store :=
  if st.supplied then { st with userCell := v } else st.setCell v

/-- `sm.current_state_value` -/
def currentStateValue (st : Store) : Option Val := st.cell

/-- `sm.current_state` (as a state index); `InvalidStateValue` when nothing / an unmapped value is stored -/
def currentState (m : Mach) (st : Store) : Except Exc StateId :=
  match st.cell with
  | none => .error .invalidState
  | some v =>
    match lookup m v with
    | some s => .ok s
    | none => .error .invalidState

/-- `sm.<s>.is_active` = `sm.current_state == s` -/
def isActive (m : Mach) (st : Store) (s : StateId) : Except Exc Bool :=
  match currentState m st with
  | .ok c => .ok (c == s)
  | .error e => .error e

/-- `sm.current_state_value = v` (`none` is Python's `None`): membership check first, then store -/
def writeValue (m : Mach) (v : Option Val) (st : Store) : Store × Except Exc Unit :=
  match v with
  | none => (st, .error .invalidState)
  | some v => if mapped m v then (st.setCell (some v), .ok ()) else (st, .error .invalidState)

/-- `sm.current_state = sm.<s>` -/
def writeState (m : Mach) (s : StateId) (st : Store) : Store × Except Exc Unit :=
  writeValue m (some (valueOf m s)) st

/-- first transition of state `s` declared for event `e` -/
def firstMatch (m : Mach) (s : StateId) (e : EventId) : Option Tr :=
  m.trans.find? (fun t => t.src == s && t.ev == e)

/-- `sm.send(e)` on a machine without guards and callbacks -/
def send (m : Mach) (e : EventId) (st : Store) : Store × Except Exc Unit :=
  match currentState m st with
  | .error x => (st, .error x)
  | .ok s =>
    match firstMatch m s e with
    | some t => writeState m t.tgt st
    | none => if m.allow then (st, .ok ()) else (st, .error (.notAllowed e s))

/-- the object the user hands to the constructor -/
structure UserModel where
  /-- Python's `bool(obj)` (`False` for an empty container, `__len__` = 0, `__bool__` = False) -/
  truthy : Bool := true
  /-- `getattr(obj, field, None)` at construction time -/
  cell   : Option Val := none
deriving Repr, DecidableEq, Inhabited

/-- `self.model = model if model is not None else Model()` (`fixed`), `model if model else Model()` (as-is) -/
def chooseModel (fixed : Bool) (um : Option UserModel) : Store :=
  match um with
  | none => {}
  | some u => { supplied := true, userCell := u.cell, ownCell := none, usesUser := fixed || u.truthy }

/-- `_get_initial_state`: the value looked up in `states_map`:
`start_value if start_value is not None else initial.value` (`fixed`), `if start_value` (as-is) -/
def initialValue (fixed : Bool) (m : Mach) (start : Option Val) : Val :=
  match start with
  | none => valueOf m m.initial
  | some v => if fixed || m.truthy v then v else valueOf m m.initial

/-- `engine.start()` + the `__initial__` transition of the sync engine: only if the field is `None` -/
def start (fixed : Bool) (m : Mach) (startValue : Option Val) (st : Store) : Store × Except Exc Unit :=
  match st.cell with
  | some _ => (st, .ok ())
  | none =>
    match lookup m (initialValue fixed m startValue) with
    | none => (st, .error .invalidState)
    | some s => writeState m s st

/-- `StateMachine(model, state_field=…, start_value=…)` -/
def construct (fixed : Bool) (m : Mach) (um : Option UserModel) (startValue : Option Val) :
    Store × Except Exc Unit :=
  start fixed m startValue (chooseModel fixed um)

/-- what can happen to a constructed machine, from outside -/
inductive Op
  /-- `sm.send(e)` -/
  | send (e : EventId)
  /-- `sm.current_state_value = v` -/
  | writeValue (v : Option Val)
  /-- `sm.current_state = sm.<s>` -/
  | writeState (s : StateId)
  /-- `setattr(model, field, v)` by the user, behind the machine's back -/
  | raw (v : Option Val)
  /-- only look -/
  | read
deriving Repr, DecidableEq, Inhabited

def step (m : Mach) : Op → Store → Store × Except Exc Unit
  | .send e, st => send m e st
  | .writeValue v, st => writeValue m v st
  | .writeState s, st => writeState m s st
  | .raw v, st => (st.userWrite v, .ok ())
  | .read, st => (st, .ok ())

/-- a history: an exception reaches the caller, who carries on -/
def run (m : Mach) : List Op → Store → Store
  | [], st => st
  | op :: ops, st => run m ops (step m op st).1

/-- everything the harness observes after an operation -/
structure Obs where
  field  : Option Val                 -- getattr(user's object, field)
  value  : Option Val                 -- sm.current_state_value
  state  : Except Exc StateId         -- sm.current_state
  active : List (Except Exc Bool)     -- sm.<s>.is_active for every declared state
  ident  : Bool                       -- sm.model is the user's object (true when none was supplied)

def observe (m : Mach) (st : Store) : Obs :=
  { field := st.userView, value := currentStateValue st, state := currentState m st,
    active := (List.range m.n).map (isActive m st), ident := !st.supplied || st.usesUser }

end SMV.Store
