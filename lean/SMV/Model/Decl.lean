import SMV.Model.Engine
/-!
# Declaration model (C15): class body evaluation + metaclass processing

What is modelled (sources: `state.py` `_ToState/_FromState/AnyState`, `transition_list.py`,
`transition.py` `Events().add`, `_copy_with_args`, `events.py`, `event.py`, `factory.py`
`add_inherited/add_from_attributes/add_state/add_event/_update_event_references`, `states.py`).

* The class under construction (`Cls`) owns a **store**: the list of all `Transition` objects in
  creation order. `state.transitions` is the sub-list of the store with that source (every
  `Transition` is appended to its source's list the moment it is created), a `TransitionList`
  value is a list of indices into the store.
* `elabBody` = evaluation of the class body: every `to/from_/any` call appends to the store *now*;
  `|` concatenates index lists; a decorator adds an `on` callback to the listed transitions;
  attributes are recorded in first-assignment order. `States({...})` and `States.from_enum(...)`
  record one state attribute per member (the metaclass calls `add_state` for each member at that
  position, exactly what it does for individual `State` attributes).
* `elabMeta` = `add_from_attributes` + `_update_event_references`: `add_state` registers the state
  and the events found on its transitions (re-running `_on_event_defined` for events that carry a
  transition list), a `TransitionList`/decorated function/`Event` attribute defines the event named
  like the attribute: the id is added to every listed transition (`Events.add`: no duplicates) and
  every `AnyState`-sourced listed transition is copied once per non-final state *registered so far*,
  the copies are appended to the store and carry only the event being defined. Placeholder events
  (`Event(name=…)` used as `event=e`) are replaced by the attribute's id at the end.
* `inherit` = `add_inherited` (after the subclass body was evaluated): the subclass re-registers the
  base's `State` objects (same store) and events.

Not modelled: `_check` (C09), event display names, re-assignment of one attribute name,
de-duplication of equal callback specs inside one group, `Event(id=…)` bound to a differently named
attribute, `|`/decorators applied to an `Event` object.
-/
namespace SMV.Decl

abbrev Name := Nat

/-- an entry of a transition's `Events` collection -/
inductive EvRef
  /-- an `Event` with a real id; `tl` = its `_transitions` (index list) when it was created by the metaclass -/
  | real (id : Name) (tl : Option (List Nat))
  /-- a placeholder `Event(name=…)` object (uuid id), identified by the attribute it is bound to -/
  | ph (var : Name)
deriving Repr, DecidableEq, Inhabited

/-- string equality of event ids (`event in self._items`) -/
def EvRef.same : EvRef → EvRef → Bool
  | .real a _, .real b _ => a == b
  | .ph a, .ph b => a == b
  | _, _ => false

/-- one element of an `event=` argument -/
inductive EvItem
  | str (ids : List Name)   -- a string; `"e1 e2"` = `str [e1, e2]`
  | obj (id : Name)         -- `Event("e1")` / `Event("e1", name=…)`
  | ph (var : Name)         -- a placeholder event bound to attribute `var`
deriving Repr, DecidableEq, Inhabited

inductive Src
  | st (s : Name)
  | any                     -- an anonymous `AnyState()`
deriving Repr, DecidableEq, Inhabited

structure Kw where
  event : List EvItem := []
  internal : Bool := false
  validators : List CbId := []
  cond : List CbId := []
  unless_ : List CbId := []
  before : List CbId := []
  on : List CbId := []
  after : List CbId := []
deriving Repr, DecidableEq, Inhabited

/-- a `Transition` object -/
structure TDef where
  source : Src
  target : Name
  events : List EvRef := []
  internal : Bool := false
  validators : List CbId := []
  conds : List (CbId × Bool) := []
  before : List CbId := []
  on : List CbId := []
  after : List CbId := []
deriving Repr, DecidableEq, Inhabited

structure SDecl where
  name : Name
  value : Option Val := none
  initial : Bool := false
  final : Bool := false
  enter : List CbId := []
  exit : List CbId := []
deriving Repr, DecidableEq, Inhabited

inductive AttrVal
  | state (s : SDecl)
  /-- a `TransitionList` (or a function decorated with one) -/
  | tl (idxs : List Nat)
  /-- an explicit `Event(...)` object without id -/
  | event (tl : Option (List Nat))
deriving Repr, DecidableEq, Inhabited

structure Cls where
  /-- the store: every `Transition` object in creation order -/
  trans : List TDef := []
  /-- `cls.states` in registration order -/
  states : List SDecl := []
  /-- `cls._events` -/
  events : List Name := []
  /-- `cls._events_to_update`: placeholder → the event that replaces it -/
  pending : List (Name × Option EvRef) := []
  /-- the class namespace, in first-assignment order -/
  attrs : List (Name × AttrVal) := []
  /-- an `InvalidDefinition` was raised -/
  err : Bool := false
deriving Repr, DecidableEq, Inhabited

inductive TExpr
  | to (s : Name) (ts : List Name) (kw : Kw)
  | from_ (t : Name) (ss : List Name) (kw : Kw)
  | toItself (s : Name) (kw : Kw)
  | fromItself (s : Name) (kw : Kw)
  | fromAny (t : Name) (kw : Kw)
  | or (a b : TExpr)
  | ref (attr : Name)
deriving Repr, Inhabited

inductive Stmt
  | state (s : SDecl)
  | statesDict (ss : List SDecl)
  /-- `States.from_enum(E, initial=…, final=…)`, members `(name, value)` -/
  | statesEnum (members : List (Name × Val)) (initial : Name) (finals : List Name)
  | assign (attr : Name) (e : TExpr)
  /-- an expression statement (transitions that carry their events in `event=`) -/
  | bare (e : TExpr)
  /-- `attr = Event(texpr, name=…)` -/
  | eventOf (attr : Name) (e : TExpr)
  /-- `attr = Event(name=…)` -/
  | placeholder (attr : Name)
  /-- `@texpr` / `def fname(self): …` : event `fname` whose body is the `on` callback `cb` -/
  | decorated (e : TExpr) (fname : Name) (cb : CbId)
deriving Repr, Inhabited

/-! ## class body -/

/-- `Events.add` of one item -/
def addEv (l : List EvRef) (e : EvRef) : List EvRef := if l.any (·.same e) then l else l ++ [e]

def evItemRefs : EvItem → List EvRef
  | .str ids => ids.map (.real · none)
  | .obj id => [.real id none]
  | .ph v => [.ph v]

/-- `Events().add(event)`: every item, strings split on spaces, no duplicates -/
def kwEvents (items : List EvItem) : List EvRef := (items.flatMap evItemRefs).foldl addEv []

/-- `Transition(source, target, **kw)` -/
def mkT (src : Src) (tgt : Name) (kw : Kw) : TDef :=
  { source := src, target := tgt, events := kwEvents kw.event, internal := kw.internal,
    validators := kw.validators,
    conds := kw.cond.map (·, true) ++ kw.unless_.map (·, false),
    before := kw.before, on := kw.on, after := kw.after }

/-- "Internal transitions should be self-transitions." -/
def badInternal (t : TDef) : Bool := t.internal && t.source != .st t.target

/-- create transitions: append to the store, return their indices -/
def push (c : Cls) (ts : List TDef) : Cls × List Nat :=
  ({ c with trans := c.trans ++ ts, err := c.err || ts.any badInternal },
   List.range' c.trans.length ts.length)

def lookupTL : List (Name × AttrVal) → Name → List Nat
  | [], _ => []
  | (k, v) :: rest, a =>
    if k == a then (match v with | .tl idxs => idxs | _ => []) else lookupTL rest a

def evalT (c : Cls) : TExpr → Cls × List Nat
  | .to s ts kw => push c (ts.map (mkT (.st s) · kw))
  | .from_ t ss kw => push c (ss.map (fun s => mkT (.st s) t kw))
  | .toItself s kw => push c [mkT (.st s) s kw]
  | .fromItself s kw => push c [mkT (.st s) s kw]
  | .fromAny t kw => push c [mkT .any t kw]
  | .or a b =>
    let r1 := evalT c a
    let r2 := evalT r1.1 b
    (r2.1, r1.2 ++ r2.2)
  | .ref a => (c, lookupTL c.attrs a)

def addAttr (c : Cls) (k : Name) (v : AttrVal) : Cls := { c with attrs := c.attrs ++ [(k, v)] }

def addAttrs (c : Cls) (kvs : List (Name × AttrVal)) : Cls := { c with attrs := c.attrs ++ kvs }

def modifyAt (f : TDef → TDef) (l : List TDef) (i : Nat) : List TDef := l.modify i f

/-- `TransitionList._add_callback(f, ON)`: the spec is added to every listed transition once -/
def addOn (c : Cls) (idxs : List Nat) (cb : CbId) : Cls :=
  { c with trans := idxs.foldl (modifyAt fun t => if t.on.contains cb then t else { t with on := t.on ++ [cb] }) c.trans }

def enumStates (members : List (Name × Val)) (initial : Name) (finals : List Name) : List SDecl :=
  members.map fun (n, v) => { name := n, value := some v, initial := n == initial, final := finals.contains n }

def stateAttrs (ss : List SDecl) : List (Name × AttrVal) := ss.map fun s => (s.name, .state s)

def elabStmt (c : Cls) : Stmt → Cls
  | .state s => addAttrs c (stateAttrs [s])
  | .statesDict ss => addAttrs c (stateAttrs ss)
  | .statesEnum ms i fs => addAttrs c (stateAttrs (enumStates ms i fs))
  | .assign a e => let r := evalT c e; addAttr r.1 a (.tl r.2)
  | .bare e => (evalT c e).1
  | .eventOf a e => let r := evalT c e; addAttr r.1 a (.event (some r.2))
  | .placeholder a => addAttr c a (.event none)
  | .decorated e f cb => let r := evalT c e; addAttr (addOn r.1 r.2 cb) f (.tl r.2)

def elabBody (c : Cls) (p : List Stmt) : Cls := p.foldl elabStmt c

/-! ## metaclass -/

/-- `state.transitions` -/
def outOf (c : Cls) (s : Name) : List TDef := c.trans.filter (·.source == .st s)

/-- `TransitionList.unique_events` -/
def uniqueEvents (ts : List TDef) : List EvRef := (ts.flatMap (·.events)).foldl addEv []

/-- `transition._copy_with_args(source=state, event=event)` -/
def copyFor (t : TDef) (s : Name) (ev : EvRef) : TDef := { t with source := .st s, events := [ev] }

/-- `AnyState._on_event_defined` for the listed transition `i` -/
def expandAny (ev : EvRef) (states : List SDecl) (c : Cls) (i : Nat) : Cls :=
  match c.trans[i]? with
  | some t =>
    if t.source == .any then
      (push c ((states.filter (!·.final)).map fun s => copyFor t s.name ev)).1
    else c
  | none => c

/-- `TransitionList._on_event_defined(event, states=list(cls.states))` -/
def onEventDefined (c : Cls) (id : Name) (idxs : List Nat) : Cls :=
  let ev := EvRef.real id (some idxs)
  let c1 := { c with trans := idxs.foldl (modifyAt fun t => { t with events := addEv t.events ev }) c.trans }
  idxs.foldl (expandAny ev c.states) c1

/-- `cls.add_event(event)` -/
def addEvent (c : Cls) : EvRef → Cls
  | .ph v => if c.pending.any (·.1 == v) then c else { c with pending := c.pending ++ [(v, none)] }
  | .real id tl =>
    let c1 := match tl with
      | some idxs => if idxs.isEmpty then c else onEventDefined c id idxs
      | none => c
    if c1.events.contains id then c1 else { c1 with events := c1.events ++ [id] }

/-- `cls.add_state(id, state)` -/
def addState (c : Cls) (s : SDecl) : Cls :=
  let c1 := { c with states := c.states ++ [s] }
  (uniqueEvents (outOf c1 s.name)).foldl addEvent c1

def setPending : List (Name × Option EvRef) → Name → EvRef → List (Name × Option EvRef)
  | [], v, e => [(v, some e)]
  | (k, x) :: rest, v, e => if k == v then (k, some e) :: rest else (k, x) :: setPending rest v e

/-- `if transitions:` in `Event.__new__`: an empty list is not kept -/
def normTl : Option (List Nat) → Option (List Nat)
  | some [] => none
  | x => x

def processAttr (c : Cls) : Name × AttrVal → Cls
  | (_, .state s) => addState c s
  | (k, .tl idxs) => addEvent c (.real k (some idxs))
  | (k, .event tl) =>
    let c1 := addEvent c (.real k (normTl tl))
    { c1 with pending := setPending c1.pending k (.real k (normTl tl)) }

def registered (c : Cls) (t : TDef) : Bool :=
  match t.source with
  | .st s => c.states.any (·.name == s)
  | .any => false

def holdsPh (t : TDef) (v : Name) : Bool := t.events.any (·.same (.ph v))

/-- one entry of `_events_to_update` -/
def updateRef (c : Cls) : Name × Option EvRef → Cls
  | (v, none) => if c.trans.any (fun t => registered c t && holdsPh t v) then { c with err := true } else c
  | (v, some e) =>
    { c with trans := c.trans.map fun t =>
        if registered c t && holdsPh t v then
          { t with events := t.events.filter (fun x => !x.same (.ph v)) ++ [e] }
        else t }

/-- `_update_event_references` -/
def updateRefs (c : Cls) : Cls := { c.pending.foldl updateRef c with pending := [] }

/-- `add_from_attributes` over the namespace, then `_update_event_references`; the namespace itself is
not part of the resulting class -/
def elabMeta (c : Cls) : Cls := updateRefs (c.attrs.foldl processAttr { c with attrs := [] })

/-- what the body of `class Sub(Base)` starts from: the base's `Transition` objects exist (they hang
off the shared `State` objects), the namespace is empty -/
def startClass (base : Cls) : Cls := { trans := base.trans, err := base.err }

/-- the events found on an inherited state's transitions are registered by id only
(`Event(id=event.id, name=event.name)`, no transition list): nothing is expanded again -/
def dropTl : EvRef → EvRef
  | .real id _ => .real id none
  | x => x

/-- `cls.add_state(id, state, inherited=True)` (after the repair of D16c/D7b) -/
def addStateInh (c : Cls) (s : SDecl) : Cls :=
  let c1 := { c with states := c.states ++ [s] }
  (uniqueEvents (outOf c1 s.name)).foldl (fun c e => addEvent c (dropTl e)) c1

/-- `add_inherited` (runs after the body was evaluated): re-register the base's states (shared
objects) and events. `fixed = false` is the code before the repair of D16c/D7b: registering an
inherited state re-ran `_on_event_defined` for the events on its transitions, so the base's
`from_.any()` transitions were expanded again — into the `State` objects shared with the base. -/
def inheritV (fixed : Bool) (base : Cls) (c : Cls) : Cls :=
  base.events.foldl (fun c e => addEvent c (.real e none))
    (base.states.foldl (if fixed then addStateInh else addState) c)

def inherit (base : Cls) (c : Cls) : Cls := inheritV true base c

/-- one `class X(Base): body` statement -/
def elabClass (base : Cls) (p : List Stmt) : Cls :=
  elabMeta (inherit base (elabBody (startClass base) p))

/-- the same before the repair of D16c/D7b -/
def elabClassAsIs (base : Cls) (p : List Stmt) : Cls :=
  elabMeta (inheritV false base (elabBody (startClass base) p))

/-- a chain of classes, each inheriting from the previous one; the result is the last class -/
def elabProg (prog : List (List Stmt)) : Cls := prog.foldl elabClass {}

/-! ## the machine a class denotes -/

def finalEvents (t : TDef) : List Name :=
  t.events.filterMap fun | .real id _ => some id | .ph _ => none

/-- what the engine uses of a transition, apart from its source, events and convention callbacks -/
structure Cand where
  target : Name
  internal : Bool
  validators : List CbId
  conds : List (CbId × Bool)
  before : List CbId
  on : List CbId
  after : List CbId
deriving Repr, DecidableEq

def cand (t : TDef) : Cand := ⟨t.target, t.internal, t.validators, t.conds, t.before, t.on, t.after⟩

/-- the ordered candidates of state `s` for event `e` -/
def cands (c : Cls) (s e : Name) : List Cand :=
  ((outOf c s).filter (fun t => (finalEvents t).contains e)).map cand

/-- `allowed_events` in state `s` (as ids, in `unique_events` order) -/
def allowed (c : Cls) (s : Name) : List Name :=
  (uniqueEvents (outOf c s)).filterMap fun | .real id _ => some id | .ph _ => none

/-- `d₁ ≈ d₂`: same states, same event set, same ordered candidates per (state, event) -/
structure Equiv (c₁ c₂ : Cls) : Prop where
  states : c₁.states = c₂.states
  events : ∀ e, e ∈ c₁.events ↔ e ∈ c₂.events
  cands : ∀ s ∈ c₁.states, ∀ e, cands c₁ s.name e = cands c₂ s.name e
  err : c₁.err = c₂.err

/-- everything about a machine that is not its declaration: user code and the methods that exist
on the class/model/listeners under conventional names -/
structure Env where
  behav : CbId → Nat → Obs → Act
  truthy : Val → Bool
  allow : Bool := false
  startValue : Option Val := none
  resVal : Res → Val := fun _ => 0
  /-- `before_transition`, `on_transition`, `after_transition` -/
  genBefore : List CbId := []
  genOn : List CbId := []
  genAfter : List CbId := []
  /-- `before_<event>`, `on_<event>`, `after_<event>` -/
  convBefore : Name → List CbId := fun _ => []
  convOn : Name → List CbId := fun _ => []
  convAfter : Name → List CbId := fun _ => []
  /-- `on_enter_state`/`on_enter_<id>`, `on_exit_state`/`on_exit_<id>` -/
  convEnter : Name → List CbId := fun _ => []
  convExit : Name → List CbId := fun _ => []

/-- convention specs of a transition: one block per *distinct* event (specs are de-duplicated) -/
def convAux (conv : Name → List CbId) : List Name → List Name → List CbSpec
  | [], _ => []
  | e :: es, seen =>
    if seen.contains e then convAux conv es seen
    else (conv e).map (fun c => { id := c, only := some e }) ++ convAux conv es (e :: seen)

def convOf (conv : Name → List CbId) (l : List Name) : List CbSpec := convAux conv l []

def plain (l : List CbId) : List CbSpec := l.map fun c => { id := c }

def stateIdx (c : Cls) (s : Name) : StateId := c.states.findIdx (·.name == s)

/-- the state value as an opaque token: an explicit value, or the id -/
def valOf (s : SDecl) : Val :=
  match s.value with
  | some v => 2 * v
  | none => 2 * s.name + 1

def toTransn (env : Env) (c : Cls) (src : Name) (t : TDef) : Transn :=
  { source := stateIdx c src, target := stateIdx c t.target, events := finalEvents t,
    internal := t.internal, validators := t.validators, conds := t.conds,
    before := plain (env.genBefore ++ t.before) ++ convOf env.convBefore (finalEvents t),
    on := plain (env.genOn ++ t.on) ++ convOf env.convOn (finalEvents t),
    after := plain (env.genAfter ++ t.after) ++ convOf env.convAfter (finalEvents t) }

def toStateDef (env : Env) (c : Cls) (s : SDecl) : StateDef :=
  { value := valOf s, initial := s.initial, final := s.final,
    enter := s.enter ++ env.convEnter s.name, exit := s.exit ++ env.convExit s.name,
    trans := (outOf c s.name).map (toTransn env c s.name) }

def toMachine (env : Env) (c : Cls) : Machine :=
  { states := c.states.map (toStateDef env c), behav := env.behav, truthy := env.truthy,
    allow := env.allow, startValue := env.startValue, resVal := env.resVal }

end SMV.Decl
