/-!
# Class-definition validation (`StateMachineMetaclass.__init__` → `_check`)

Model of `statemachine/factory.py` (`add_from_attributes`, `add_event`, `_check*`),
`statemachine/graph.py` (`visit_connected_states`), `statemachine/transition.py` (the
`internal ⇒ source is target` test in `Transition.__init__`) and `statemachine/state.py`
(`_FromState.any`, `AnyState._on_event_defined`). No imports: the driver compiles natively.

A class definition is
* the declared states, in declaration order, each with its `initial` / `final` flag (a state is
  its position in that list);
* the declared events; an event is the list of transition *specifications* assigned to one class
  attribute (possibly empty: `go = TransitionList()`), each either an explicit
  `src.to(tgt, internal=…)` or a `tgt.from_.any(internal=…)` placeholder. A placeholder carries
  `upto`, the number of states that were already registered when the event attribute was
  processed (`add_event` passes `states=list(cls.states)`): it is expanded onto the non-final
  states among the first `upto` ones. In a class body that declares all states first, `upto` is
  the number of states;
* "loose" transitions, created in the class body (`a.to(b)`) but never assigned to an attribute:
  they are in `a.transitions` and take part in every graph check, but define no event; a loose
  `from_.any()` is never expanded;
* the `strict_states` class keyword.

`check` performs the tests in the code's order. What is *not* modelled: inheritance
(`add_inherited`), the `States` container, one `State` object registered under two names,
transitions whose source or target is a `State` object that is not declared in the class
(the model treats such an index as a non-final, non-initial node; the correspondence check only
generates definitions whose indices are in range), event-name bookkeeping
(`_update_event_references`), and the text of the messages (only the state ids they name).
-/
namespace SMV.Validate

structure StateDef where
  initial : Bool
  final : Bool
deriving DecidableEq, Repr, Inhabited

/-- a transition as written in the class body -/
inductive TSpec
  /-- `src.to(tgt, internal=internal)` (equivalently `tgt.from_(src, …)`) -/
  | edge (src tgt : Nat) (internal : Bool)
  /-- `tgt.from_.any(internal=internal)`; `upto` = number of states registered before the event -/
  | any (tgt : Nat) (internal : Bool) (upto : Nat)
deriving DecidableEq, Repr, Inhabited

structure ClassDef where
  states : List StateDef
  events : List (List TSpec)
  loose : List TSpec := []
  strict : Bool := false
deriving Repr, Inhabited

/-- an edge of the final graph: one element of `states[src].transitions` -/
structure Edge where
  src : Nat
  tgt : Nat
deriving DecidableEq, Repr, Inhabited

/-- `Transition.__init__`: `if internal and source is not target: raise InvalidDefinition`.
For `from_.any()` the source is the fresh `AnyState()` placeholder, never the target. -/
def TSpec.constructible : TSpec → Bool
  | .edge s t i => !i || s == t
  | .any _ i _ => !i

namespace ClassDef
variable (d : ClassDef)

def n : Nat := d.states.length

def isInitial (i : Nat) : Bool :=
  match d.states[i]? with
  | some s => s.initial
  | none => false

def isFinal (i : Nat) : Bool :=
  match d.states[i]? with
  | some s => s.final
  | none => false

/-- every transition object constructed while the class body runs -/
def specs : List TSpec := d.events.flatten ++ d.loose

/-- `AnyState._on_event_defined`: one copy per non-final state registered so far -/
def expandAny (tgt upto : Nat) : List Edge :=
  ((List.range (min upto d.n)).filter (fun i => !d.isFinal i)).map (fun i => ⟨i, tgt⟩)

/-- transitions contributed by a specification that is bound to an event -/
def expandBound : TSpec → List Edge
  | .edge s t _ => [⟨s, t⟩]
  | .any t _ u => d.expandAny t u

/-- transitions contributed by a specification that is not bound to any event -/
def expandLoose : TSpec → List Edge
  | .edge s t _ => [⟨s, t⟩]
  | .any _ _ _ => []

/-- the graph that `_check` sees: all `state.transitions` of all declared states -/
def edges : List Edge :=
  (d.events.flatten.map d.expandBound).flatten ++ (d.loose.map expandLoose).flatten

/-- `[t.target for t in state.transitions]` -/
def succ (a : Nat) : List Nat :=
  (d.edges.filter (fun e => e.src == a)).map (·.tgt)

end ClassDef

/-- `visit_connected_states`: the deque loop
```
while visit:
    state = visit.popleft()
    if state in already_visited: continue
    already_visited.add(state); yield state
    visit.extend(t.target for t in state.transitions)
```
One unit of `fuel` per *new* state visited (Python's loop has no fuel; `Props/C09` proves that the
fuel given by `bfs` never runs out). Popping the already-visited prefix of the deque is
`dropWhile`, which keeps the definition structurally recursive (so the kernel can evaluate it). -/
def go (succ : Nat → List Nat) : Nat → List Nat → List Nat → List Nat
  | 0, _, vis => vis
  | f + 1, w, vis =>
    match w.dropWhile (fun x => vis.contains x) with
    | [] => vis
    | s :: w' => go succ f (w' ++ succ s) (s :: vis)

namespace ClassDef
variable (d : ClassDef)

/-- the states yielded by `visit_connected_states(states[s])` (as a set; most recent first) -/
def bfs (s : Nat) : List Nat := go d.succ (d.edges.length + 1) [s] []

/-- `cls.initial_state = next(s for s in cls.states if s.initial)` -/
def initIdx : Nat := d.states.findIdx (·.initial)

/-- `[s for s in cls.states if s.initial]` (as indices) -/
def initials : List Nat := (List.range d.n).filter d.isInitial

/-- `[state for state in cls.final_states if state.transitions]` -/
def finalsWithTransitions : List Nat :=
  (List.range d.n).filter (fun i => d.isFinal i && d.edges.any (fun e => e.src == i))

/-- `set(cls.states) - set(visit_connected_states(cls.initial_state))` -/
def disconnected : List Nat :=
  (List.range d.n).filter (fun i => !(d.bfs d.initIdx).contains i)

/-- `[s for s in cls.states if not s.final and not s.transitions]` -/
def trapStates : List Nat :=
  (List.range d.n).filter (fun i => !d.isFinal i && !d.edges.any (fun e => e.src == i))

/-- `_check_reachable_final_states`: nothing to check without final states, else
`[s for s in states if not s.final and not any(x.final for x in visit_connected_states(s))]` -/
def noPathToFinal : List Nat :=
  if d.states.any (·.final) then
    (List.range d.n).filter (fun i => !d.isFinal i && !(d.bfs i).any d.isFinal)
  else []

end ClassDef

inductive Reason
  | internalNotSelf | noStates | noEvents | initialCount | finalWithTransitions
  | unreachable | trap | noPathToFinal
deriving DecidableEq, Repr, Inhabited

/-- outcome of the class statement -/
inductive Verdict
  /-- `InvalidDefinition`; `named` = the state ids the message lists -/
  | invalid (r : Reason) (named : List Nat)
  /-- the class object is created; `abstract` = no states and no events (such a class cannot be
  instantiated); `warnings` = for each `UserWarning`, in order, the states it names -/
  | ok (abstract : Bool) (warnings : List (List Nat))
deriving DecidableEq, Repr, Inhabited

/-- strict: raise; otherwise warn and continue -/
def strictStep (strict : Bool) (r : Reason) (issue : List Nat)
    (k : List (List Nat) → Verdict) (ws : List (List Nat)) : Verdict :=
  if issue.isEmpty then k ws
  else if strict then .invalid r issue
  else k (ws ++ [issue])

/-- class body (transition construction), then `StateMachineMetaclass._check` -/
def check (d : ClassDef) : Verdict :=
  if !d.specs.all TSpec.constructible then .invalid .internalNotSelf []
  else if d.states.isEmpty && d.events.isEmpty then .ok true []
  else if d.states.isEmpty then .invalid .noStates []
  else if d.events.isEmpty then .invalid .noEvents []
  else if d.initials.length != 1 then .invalid .initialCount d.initials
  else if !d.finalsWithTransitions.isEmpty then .invalid .finalWithTransitions d.finalsWithTransitions
  else if !d.disconnected.isEmpty then .invalid .unreachable d.disconnected
  else
    strictStep d.strict .trap d.trapStates
      (strictStep d.strict .noPathToFinal d.noPathToFinal (fun ws => .ok false ws)) []

end SMV.Validate
