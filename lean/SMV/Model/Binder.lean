/-!
# Binder model (C07): how a callback receives its parameters

Executable model of

* `statemachine/signature.py` — `SignatureAdapter.bind_expected` (`phase1` = the `while True` loop over
  the positional arguments, `phase2` = the `for param in chain(parameters_ex, parameters)` loop,
  `finalize` = the trailing `if kwargs:`), and the memoisation of adapters (`signature_cache`);
* `statemachine/dispatcher.py` — `callable_method`: `ba = bind_expected(*args, **kwargs)` followed by
  `a_callable(*ba.args, **ba.kwargs)` (`invoke`);
* `statemachine/event.py` — `Event.__call__` strips the reserved names from the user's keywords
  (`filterReserved`);
* `statemachine/event_data.py` — `EventData.extended_kwargs` layers the eight built-in values over the
  user's keywords by dict assignment (`extendedKwargs`).

Modelled externals (CPython 3.12, trusted to behave as documented, exercised by the correspondence
check in `harness/props/c07.py` — kinds `ba` and `call` compare them with CPython directly):

* `inspect.BoundArguments.args` / `.kwargs` (`baArgs`, `baKwargs`);
* the Python call protocol `f(*args, **kwargs)` for a function with a given signature (`pyCall`):
  positional arguments fill positional-only / positional-or-keyword parameters in order, surplus ones go
  to `*args` or are a `TypeError`; a keyword fills the positional-or-keyword / keyword-only parameter of
  that name (`TypeError` if already filled positionally), otherwise it goes to `**kwargs` or is a
  `TypeError`; an unfilled parameter takes its default or is a `TypeError`.

Names and values are `Nat` tokens; dicts are association lists (first occurrence wins). The dict that
`ba.kwargs` builds is modelled by list append; `baKwargs_nodup` (Lemmas/BinderCorner) proves that on
`bind_expected`'s result no key is inserted twice, so append *is* dict insertion there. `none` stands for `TypeError` (the only exception any of this code raises).

`fixed = false` is the code before commit 7cfa348 (defect D5: a keyword-only parameter met while
positional arguments are left over was consumed from the parameter iterator and never looked at again);
for the cache, `fixed = false` is the key `(qualname, class name, varnames)` used before commit
2556fed (defect D6).

No imports: the driver `drv_bind` compiles natively.
-/
namespace SMV.Bind

abbrev Val := Nat
abbrev Name := Nat

/-- `inspect.Parameter.kind`: POSITIONAL_ONLY, POSITIONAL_OR_KEYWORD, VAR_POSITIONAL, KEYWORD_ONLY,
VAR_KEYWORD -/
inductive Kind | po | pk | vp | ko | vk
deriving DecidableEq, Repr, Inhabited

structure Param where
  name : Name
  kind : Kind
  /-- has a default value -/
  dflt : Bool
deriving DecidableEq, Repr, Inhabited

/-- a `dict` with `Name` keys: association list, first occurrence wins -/
abbrev KW := List (Name × Val)

def kwGet : KW → Name → Option Val
  | [], _ => none
  | (k, v) :: rest, n => if k = n then some v else kwGet rest n

/-- `kw.pop(n)` (the dict without key `n`) -/
def kwErase : KW → Name → KW
  | [], _ => []
  | (k, v) :: rest, n => if k = n then kwErase rest n else (k, v) :: kwErase rest n

/-- `kw[n] = v`: replace in place, else append (dict insertion order) -/
def kwSet : KW → Name → Val → KW
  | [], n, v => [(n, v)]
  | (k, w) :: rest, n, v => if k = n then (k, v) :: rest else (k, w) :: kwSet rest n v

def keys (kw : KW) : List Name := kw.map (·.1)

/-- what a parameter holds: one value, the `*args` tuple, the `**kwargs` dict, or (in a callee's
frame only) the parameter's own default -/
inductive ArgVal
  | one (v : Val) | tuple (vs : List Val) | dict (kw : KW) | dflt
deriving DecidableEq, Repr, Inhabited

/-- `BoundArguments.arguments` (insertion ordered); also the callee's frame -/
abbrev Arguments := List (Name × ArgVal)
abbrev Frame := Arguments

def lookup : Arguments → Name → Option ArgVal
  | [], _ => none
  | (k, v) :: rest, n => if k = n then some v else lookup rest n

/-! ## `SignatureAdapter.bind_expected` -/

/-- state after the `while True` loop: `arguments`, what is left of `kwargs`, the parameters still to
be visited (`chain(parameters_ex, parameters)`), `kwargs_param` -/
structure P1 where
  args : Arguments
  kw : KW
  rest : List Param
  vk : Option Param
deriving Repr, Inhabited

/-- the `while True` loop. `none` = the `TypeError` "parameter is positional only, but was passed as a
keyword". `fixed`: the keyword-only parameter is pushed back (`parameters_ex = (param,)`). -/
def phase1 (fixed : Bool) : List Param → List Val → KW → Arguments → Option P1
  | [], _, kw, acc => some ⟨acc, kw, [], none⟩
  | p :: rest, [], kw, acc =>
    if p.kind = .vp then some ⟨acc, kw, rest, none⟩
    else if (kwGet kw p.name).isSome ∧ p.kind = .po then none
    else some ⟨acc, kw, p :: rest, none⟩
  | p :: rest, a :: as, kw, acc =>
    match p.kind with
    | .vk => some ⟨acc, kw, rest, some p⟩
    | .ko => some ⟨acc, kw, if fixed then p :: rest else rest, none⟩
    | .vp => some ⟨acc ++ [(p.name, .tuple (a :: as))], kw, rest, none⟩
    | .pk =>
      match kwGet kw p.name with
      | some v => phase1 fixed rest as (kwErase kw p.name) (acc ++ [(p.name, .one v)])
      | none => phase1 fixed rest as kw (acc ++ [(p.name, .one a)])
    | .po => phase1 fixed rest as kw (acc ++ [(p.name, .one a)])

/-- the `for param in chain(parameters_ex, parameters)` loop -/
def phase2 : List Param → KW → Arguments → Option Param → Arguments × KW × Option Param
  | [], kw, acc, vk => (acc, kw, vk)
  | p :: rest, kw, acc, vk =>
    match p.kind with
    | .vk => phase2 rest kw acc (some p)
    | .vp => phase2 rest kw acc vk
    | _ =>
      match kwGet kw p.name with
      | some v => phase2 rest (kwErase kw p.name) (acc ++ [(p.name, .one v)]) vk
      | none => phase2 rest kw acc vk

/-- second loop and the trailing `if kwargs: if kwargs_param is not None: arguments[name] = kwargs` -/
def finalize (ps : List Param) (kw : KW) (acc : Arguments) (vk : Option Param) : Arguments :=
  let r := phase2 ps kw acc vk
  match r.2.2 with
  | some p => if r.2.1.isEmpty then r.1 else r.1 ++ [(p.name, .dict r.2.1)]
  | none => r.1

def bindExpected (fixed : Bool) (sig : List Param) (args : List Val) (kw : KW) : Option Arguments :=
  match phase1 fixed sig args kw [] with
  | none => none
  | some r => some (finalize r.rest r.kw r.args r.vk)

/-! ## `inspect.BoundArguments.args` / `.kwargs` (modelled external) -/

/-- values an entry contributes to `ba.args`: `args.append(arg)` / `args.extend(arg)` -/
def ArgVal.vals : ArgVal → List Val
  | .one v => [v]
  | .tuple vs => vs
  | _ => []

/-- entries an argument contributes to `ba.kwargs`: `kwargs[name] = arg` / `kwargs.update(arg)`.
(A `*args` tuple stored under its name cannot be written as a `Val`; it does not arise: `ba.kwargs`
reaches a `*args` entry only after a missing positional parameter, and `bind_expected` fills `*args`
only after all of them — lemma `bound_closed`.) -/
def ArgVal.items (n : Name) : ArgVal → KW
  | .one v => [(n, v)]
  | .dict d => d
  | _ => []

/-- `BoundArguments.args`: stop at the first keyword-only / `**kwargs` parameter or missing entry -/
def baArgs : List Param → Arguments → List Val
  | [], _ => []
  | p :: ps, A =>
    if p.kind = .ko ∨ p.kind = .vk then []
    else match lookup A p.name with
      | none => []
      | some a => a.vals ++ baArgs ps A

/-- `BoundArguments.kwargs`; the flag is `kwargs_started`. Keys are inserted at most once
(`baKwargs_nodup`), so dict insertion is list append. -/
def baKwargs : List Param → Arguments → Bool → KW
  | [], _, _ => []
  | p :: ps, A, started =>
    if started = true ∨ p.kind = .ko ∨ p.kind = .vk then
      (match lookup A p.name with
       | none => []
       | some a => a.items p.name) ++ baKwargs ps A true
    else if (lookup A p.name).isSome then baKwargs ps A false
    else baKwargs ps A true

/-! ## The Python call protocol (modelled external) -/

def consO (e : Name × ArgVal) : Option Frame → Option Frame
  | none => none
  | some f => some (e :: f)

/-- a parameter the caller did not supply: its default, or `TypeError: missing … argument` -/
def absent (p : Param) (k : Option Frame) : Option Frame :=
  if p.dflt then consO (p.name, .dflt) k else none

/-- a parameter that can be given by keyword, once the positional arguments are used up -/
def byKeyword (p : Param) (kw : KW) (k : KW → Option Frame) : Option Frame :=
  match kwGet kw p.name with
  | some v => consO (p.name, .one v) (k (kwErase kw p.name))
  | none => absent p (k kw)

/-- `f(*as, **kw)` for a function `f` with signature `sig`: the callee's frame, or `none` = `TypeError`
(too many positional arguments / multiple values / missing argument / unexpected keyword). -/
def pyCall : List Param → List Val → KW → Option Frame
  | [], as, kw => if as.isEmpty ∧ kw.isEmpty then some [] else none
  | p :: ps, as, kw =>
    match p.kind with
    | .po =>
      match as with
      | a :: as' => consO (p.name, .one a) (pyCall ps as' kw)
      | [] => absent p (pyCall ps [] kw)
    | .pk =>
      match as with
      | a :: as' =>
        if (kwGet kw p.name).isSome then none else consO (p.name, .one a) (pyCall ps as' kw)
      | [] => byKeyword p kw (pyCall ps [])
    | .vp => consO (p.name, .tuple as) (pyCall ps [] kw)
    | .ko =>
      match as with
      | _ :: _ => none
      | [] => byKeyword p kw (pyCall ps [])
    | .vk =>
      match as with
      | _ :: _ => none
      | [] => consO (p.name, .dict kw) (pyCall ps [] [])

/-- `callable_method(f)(*args, **kw)` when the adapter in use was built for the signature `adapter`
and `f`'s own signature is `own` (they differ only when the cache hands out a foreign adapter) -/
def invokeWith (fixed : Bool) (adapter own : List Param) (args : List Val) (kw : KW) : Option Frame :=
  match bindExpected fixed adapter args kw with
  | none => none
  | some A => pyCall own (baArgs adapter A) (baKwargs adapter A false)

/-- `callable_method(f)(*args, **kw)`: what `f` finds in its parameters, or `none` = `TypeError` -/
def invoke (fixed : Bool) (sig : List Param) (args : List Val) (kw : KW) : Option Frame :=
  invokeWith fixed sig sig args kw

/-! ## Specification (written from the property text; does not refer to the code above) -/

/-- a keyword is consumed iff a positional-or-keyword or keyword-only parameter bears its name -/
def consumed (sig : List Param) (n : Name) : Bool :=
  sig.any fun p => p.name == n && (p.kind == .pk || p.kind == .ko)

def dfltOr (p : Param) : Option ArgVal := if p.dflt then some .dflt else none

/-- what the parameter `p`, `i`-th of `sig`, must receive; `none` = a legitimate "missing argument".
* positional-only: the `i`-th positional argument, else its default;
* positional-or-keyword: the same-named keyword, else the `i`-th positional argument, else its default;
* `*args`: the positional arguments from `i` on (all positional parameters precede it);
* keyword-only: the same-named keyword, else its default;
* `**kwargs`: every keyword not consumed by a named parameter, in the caller's order. -/
def specParam (sig : List Param) (args : List Val) (kw : KW) (i : Nat) (p : Param) : Option ArgVal :=
  match p.kind with
  | .po =>
    match args[i]? with
    | some a => some (.one a)
    | none => dfltOr p
  | .pk =>
    match kwGet kw p.name with
    | some v => some (.one v)
    | none =>
      match args[i]? with
      | some a => some (.one a)
      | none => dfltOr p
  | .vp => some (.tuple (args.drop i))
  | .ko =>
    match kwGet kw p.name with
    | some v => some (.one v)
    | none => dfltOr p
  | .vk => some (.dict (kw.filter fun e => !consumed sig e.1))

def specFrom (sig : List Param) (args : List Val) (kw : KW) : Nat → List Param → List (Name × Option ArgVal)
  | _, [] => []
  | i, p :: ps => (p.name, specParam sig args kw i p) :: specFrom sig args kw (i + 1) ps

def specFrame (sig : List Param) (args : List Val) (kw : KW) : List (Name × Option ArgVal) :=
  specFrom sig args kw 0 sig

/-- all parameters have a value → the frame; some required parameter has none → `TypeError` -/
def collect : List (Name × Option ArgVal) → Option Frame
  | [] => some []
  | (n, some v) :: rest => consO (n, v) (collect rest)
  | (_, none) :: _ => none

def specCall (sig : List Param) (args : List Val) (kw : KW) : Option Frame :=
  collect (specFrame sig args kw)

/-- The one corner where only CPython's own behaviour is demanded: a positional-only parameter that no
positional argument reaches while a keyword bears its name. (`tests/test_signature.py` pins the
`TypeError` for it.) -/
def cornerFrom (args : List Val) (kw : KW) : Nat → List Param → Bool
  | _, [] => false
  | i, p :: ps =>
    (p.kind == .po && decide (args.length ≤ i) && (kwGet kw p.name).isSome) || cornerFrom args kw (i + 1) ps

def corner (sig : List Param) (args : List Val) (kw : KW) : Bool := cornerFrom args kw 0 sig

/-- Python's rules for a `def` header: kinds in the order po* pk* vp? ko* vk? … -/
def kindOk : Kind → Kind → Bool
  | .po, _ => true
  | .pk, .po => false
  | .pk, _ => true
  | .vp, .ko => true
  | .vp, .vk => true
  | .vp, _ => false
  | .ko, .ko => true
  | .ko, .vk => true
  | .ko, _ => false
  | .vk, _ => false

/-- … and distinct parameter names -/
def wfB (sig : List Param) : Bool :=
  decide ((sig.map (·.name)).Nodup) && decide ((sig.map (·.kind)).Pairwise (fun a b => kindOk a b = true))

/-! ## Reserved names: `Event.__call__` and `EventData.extended_kwargs` -/

/-- ids of `event_data, machine, event, model, transition, state, source, target` -/
def reserved : List Name := [0, 1, 2, 3, 4, 5, 6, 7]

/-- `{k: v for k, v in kwargs.items() if k not in _event_data_kwargs}` -/
def filterReserved (kw : KW) : KW := kw.filter fun e => !reserved.contains e.1

/-- `kwargs = trigger_data.kwargs.copy(); kwargs["event_data"] = self; …` in the order of the code;
`b r` is the current event's value for the reserved name `r` -/
def extendedKwargs (tk : KW) (b : Name → Val) : KW :=
  reserved.foldl (fun kw r => kwSet kw r (b r)) tk

/-- keywords a callback is called with when the user sent `kw` and the current event's built-in
values are `b` -/
def eventKwargs (kw : KW) (b : Name → Val) : KW := extendedKwargs (filterReserved kw) b

/-- the full path `sm.send(event, *args, **kw)` → callback with signature `sig` -/
def invokeEvent (fixed : Bool) (sig : List Param) (args : List Val) (kw : KW) (b : Name → Val) :
    Option Frame :=
  invoke fixed sig args (eventKwargs kw b)

/-! ## The signature cache (`signature_cache`) -/

/-- a callable as the cache sees it: its identity (the function object; a bound method is keyed by
`(__func__, True)`), its qualified name (+ class name + varnames, the old key), and its signature -/
structure Callable where
  ident : Nat
  qual : Nat
  sig : List Param
deriving Repr, Inhabited

abbrev Cache := List (Nat × List Param)

def cacheGet : Cache → Nat → Option (List Param)
  | [], _ => none
  | (k, v) :: rest, n => if k = n then some v else cacheGet rest n

def cacheKey (fixed : Bool) (c : Callable) : Nat := if fixed then c.ident else c.qual

/-- `SignatureAdapter.from_callable` through the cache: the adapter used for `c`, and the new cache -/
def fromCallable (fixed : Bool) (cache : Cache) (c : Callable) : List Param × Cache :=
  match cacheGet cache (cacheKey fixed c) with
  | some s => (s, cache)
  | none => (c.sig, (cacheKey fixed c, c.sig) :: cache)

/-- the cache after adapters were requested for `hist` (oldest first) -/
def warm (fixed : Bool) : Cache → List Callable → Cache
  | cache, [] => cache
  | cache, c :: cs => warm fixed (fromCallable fixed cache c).2 cs

/-- binding a call to `c` after the process has already wrapped the callables `hist` -/
def invokeCached (fixed : Bool) (hist : List Callable) (c : Callable) (args : List Val) (kw : KW) :
    Option Frame :=
  invokeWith true (fromCallable fixed (warm fixed [] hist) c).1 c.sig args kw

end SMV.Bind
