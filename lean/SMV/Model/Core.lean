/-!
# Core types of the engine model

Model of `statemachine/engines/{base,sync,async_}.py`, `event.py`, `callbacks.py` (executor part).
No imports: the driver must compile to a native executable.

User code (callbacks, guards, validators on machine / model / listeners) is a *parameter*
`behav : CbId → Nat → Obs → Act`; theorems quantify over it.
-/
namespace SMV

abbrev StateId := Nat
abbrev EventId := Nat
abbrev CbId := Nat
/-- opaque value tokens: state values, callback return values. The model only ever compares them. -/
abbrev Val := Nat

/-- the reserved event `__initial__` -/
def initialEv : EventId := 0

inductive Exc
  | user (tag : Nat)                              -- raised by user code
  | notAllowed (event : EventId) (state : StateId) -- TransitionNotAllowed(event, state)
  | invalidState                                  -- InvalidStateValue
  | invalidDef                                    -- InvalidDefinition
  | fuel                                          -- the model's fuel ran out (RecursionError / endless chain)
deriving DecidableEq, Repr, Inhabited

inductive Phase | validators | cond | before | exit | on | enter | after
deriving DecidableEq, Repr, Inhabited

/-- what an event call returns: `None`, one value, or a list -/
inductive Res
  | none
  | one (v : Val)
  | many (vs : List Val)
deriving DecidableEq, Repr, Inhabited

/-- the unwrap rule at the end of `_activate` -/
def unwrap : List Val → Res
  | [] => .none
  | [v] => .one v
  | vs => .many vs

structure Trigger where
  tid   : Nat
  event : EventId
  /-- the activation trigger the engine queues for itself in `start()` (as opposed to an event somebody sent) -/
  internal : Bool := false
deriving Repr, DecidableEq

/-- what a callback can observe -/
structure Obs where
  tid   : Nat
  state : Option Val
  event : EventId
deriving Repr

/-- what a callback does: sends nested events (in order), then raises or returns -/
structure Act where
  ret    : Val
  raises : Option Nat := none
  sends  : List EventId := []
  /-- an *event* used as a callback (`before="other_event"`, `dispatcher.event_method`): the callback hands back
  whatever its last nested send returned instead of `ret` -/
  retSend : Bool := false
deriving Repr, Inhabited

inductive Entry
  /-- a callback starts: trigger, phase, callback, the state value it sees, event, source, target -/
  | cbBegin (tid : Nat) (ph : Phase) (cb : CbId) (seen : Option Val) (ev : EventId)
      (src : Option StateId) (tgt : StateId)
  /-- the value a nested `send` handed back to the callback -/
  | sendRet (tid : Nat) (ph : Phase) (cb : CbId) (r : Res)
  /-- a callback returned `ret` -/
  | cbEnd   (tid : Nat) (ph : Phase) (cb : CbId) (ret : Val)
  | setState (tid : Nat) (v : Val)
deriving Repr, DecidableEq

def Entry.tid : Entry → Nat
  | .cbBegin t .. => t
  | .sendRet t .. => t
  | .cbEnd t .. => t
  | .setState t _ => t

/-- a callback of an action group; `only = some e`: runs only when the triggering event is `e`
(`before_<e>`, `on_<e>`, `after_<e>`) -/
structure CbSpec where
  id   : CbId
  only : Option EventId := none
deriving Repr, DecidableEq

structure Transn where
  source : StateId
  target : StateId
  events : List EventId
  internal : Bool := false
  validators : List CbId := []
  /-- guards in evaluation order with their expected truth value (`cond` = true, `unless` = false) -/
  conds : List (CbId × Bool) := []
  before : List CbSpec := []
  on : List CbSpec := []
  after : List CbSpec := []
deriving Repr

structure StateDef where
  value : Val
  initial : Bool := false
  final : Bool := false
  enter : List CbId := []
  exit  : List CbId := []
  /-- outgoing transitions in declaration order -/
  trans : List Transn := []
deriving Repr

structure Machine where
  states : List StateDef
  behav  : CbId → Nat → Obs → Act
  truthy : Val → Bool
  /-- `allow_event_without_transition` -/
  allow  : Bool := false
  /-- `start_value` -/
  startValue : Option Val := none
  /-- an event's result seen as a value (by a callback that hands it back): `None`, the value itself, the list -/
  resVal : Res → Val := fun _ => 0

structure Cfg where
  /-- the model field -/
  cur    : Option Val := none
  queue  : List Trigger := []
  /-- the processing lock -/
  locked : Bool := false
  log    : List Entry := []     -- oldest first
  nextTid : Nat := 0
  nextInv : Nat := 0
deriving Repr

/-- state + exception monad; the configuration survives an exception (Python object mutation). -/
def EM (α : Type) := Cfg → Cfg × Except Exc α

instance : Monad EM where
  pure a := fun c => (c, .ok a)
  bind x f := fun c =>
    match x c with
    | (c', .ok a) => f a c'
    | (c', .error e) => (c', .error e)

def EM.get : EM Cfg := fun c => (c, .ok c)
def EM.modify (f : Cfg → Cfg) : EM Unit := fun c => (f c, .ok ())
def EM.throw {α} (e : Exc) : EM α := fun c => (c, .error e)

@[simp] theorem EM.pure_apply {α} (a : α) (c : Cfg) : (pure a : EM α) c = (c, .ok a) := rfl
theorem EM.bind_apply {α β} (x : EM α) (f : α → EM β) (c : Cfg) :
    (x >>= f) c = match x c with
      | (c', .ok a) => f a c'
      | (c', .error e) => (c', .error e) := rfl

def stateDef (m : Machine) (s : StateId) : StateDef := m.states.getD s { value := 0 }
def stateVal (m : Machine) (s : StateId) : Val := (stateDef m s).value
def out (m : Machine) (s : StateId) : List Transn := (stateDef m s).trans

/-- `states_map[value]` (values are assumed distinct where it matters) -/
def lookupState (m : Machine) (v : Val) : Option StateId := m.states.findIdx? (·.value == v)

def initialState (m : Machine) : Option StateId := m.states.findIdx? (·.initial)

end SMV
