/-!
# Model of `statemachine/contrib/diagram.py` — `DotGraphMachine.get_graph` (property C18)

What is modelled (line numbers of `/repo/statemachine/contrib/diagram.py`):

* `get_graph` (139-151): the pseudo-node, the initial edge, then for every state *in declaration
  order* its node followed by one edge per transition of that state that is not `internal`
  (`stateItems` / `transItems` are the two nested `for` loops, written as structural recursions).
* `_initial_node` (46-57), `_initial_edge` (59-67): node `i`, edge `i -> machine.initial_state.id`
  with an empty label. `machine.initial_state` is the first state flagged `initial`
  (`factory.py: next(s for s in cls.states if s.initial)`).
* `_state_as_node` (107-124): node id = `state.id`, label = name + actions, `peripheries` 2 iff
  final, highlighted (active fill colour and pen width) iff `state == machine.current_state`.
  `State.__eq__` compares `(name, id)`; for a *class* `machine.current_state` is a `property`
  object, so no state is equal to it.  For an *instance* `current_state` is
  `states_map[current_state_value]` (`statemachine.py` 262-285; `states_map` is a `dict` filled in
  declaration order, so the last state with a given value wins) and a value that is no key raises
  `InvalidStateValue`.
* `_state_actions` (84-105): the label lines `entry / …`, `exit / …` and the internal transitions
  `event / on-actions`, the last ones joined with `", "`.
* `_transition_as_edge` (126-137): `source.id -> target.id`, label = `event` (the event names joined
  with a blank) followed by `\n[guards]`, an `unless` guard written `!name`.

Inputs that are *resolved by the harness*, not modelled: which callback names the
`_actions_getter` shows for `enter`/`exit`/`on` (for a class: the declared names plus those
convention names that exist on the class; for an instance: the callbacks actually registered, in
priority order). They enter the model as the lists `enter`, `exit`, `on`.

Everything a node/edge carries besides these (font, fixed colours, shape strings) is constant in the
code and is printed by the driver, not reasoned about.
No imports: this file is compiled into the native driver `drv_diagram`.
-/

namespace SMV.Diagram

abbrev Ident := String

/-- A guard of a transition: `cond=` entries have `expected = true`, `unless=` entries `false`. -/
structure Guard where
  name : String
  expected : Bool := true
deriving DecidableEq, Repr, Inhabited

structure TransDef where
  /-- id of the target state (`transition.target.id`) -/
  target : Ident
  internal : Bool := false
  /-- event names, in the order of `transition.events` -/
  events : List String := []
  /-- `transition.cond`: cond and unless entries in spec order -/
  guards : List Guard := []
  /-- names the actions getter shows for `transition.on` (only used for internal transitions) -/
  on : List String := []
deriving DecidableEq, Repr, Inhabited

structure StateDef where
  id : Ident
  name : String
  /-- canonical text of `state.value` -/
  value : String
  initial : Bool := false
  final : Bool := false
  enter : List String := []
  exit : List String := []
  /-- `state.transitions`, in order; the source of each of them is this state -/
  trans : List TransDef := []
deriving DecidableEq, Repr, Inhabited

structure Machine where
  states : List StateDef
deriving Repr, Inhabited

/-- What `DotGraphMachine(x)` was given: the class, an instance whose model stores `value`, or an instance whose
model holds no state yet (an async machine before its activation; D38 repaired). -/
inductive Subject
  | cls
  | inst (value : String)
  | unset
deriving DecidableEq, Repr, Inhabited

/-- The pieces of a state node's label. -/
structure StateLabel where
  name : String
  entry : List String
  exit : List String
  /-- one `(events, on-actions)` per internal transition, in order -/
  internals : List (List String × List String)
deriving DecidableEq, Repr, Inhabited

structure Node where
  id : Ident
  /-- `none` for the initial pseudo-node (it has no label attribute) -/
  label : Option StateLabel
  /-- `none` for the pseudo-node -/
  peripheries : Option Nat
  /-- active fill colour and pen width are set -/
  highlighted : Bool
deriving DecidableEq, Repr, Inhabited

structure EdgeLabel where
  events : List String
  guards : List Guard
deriving DecidableEq, Repr, Inhabited

structure Edge where
  src : Ident
  dst : Ident
  label : EdgeLabel
deriving DecidableEq, Repr, Inhabited

/-- `graph.add_node` / `graph.add_edge` calls, in the order they are made. -/
inductive Item
  | node (n : Node)
  | edge (e : Edge)
deriving DecidableEq, Repr, Inhabited

structure Graph where
  items : List Item
deriving Repr, Inhabited

def Item.node? : Item → Option Node
  | .node n => some n
  | .edge _ => none

def Item.edge? : Item → Option Edge
  | .node _ => none
  | .edge e => some e

def Graph.nodes (g : Graph) : List Node := g.items.filterMap Item.node?
def Graph.edges (g : Graph) : List Edge := g.items.filterMap Item.edge?

/-- the hard-coded name of the initial pseudo-node -/
def initId : Ident := "i"

def initNode : Node := { id := initId, label := none, peripheries := none, highlighted := false }

def initEdge (ini : StateDef) : Edge := { src := initId, dst := ini.id, label := ⟨[], []⟩ }

/-- `states_map[value]`: a dict filled in declaration order — the last state with the value wins. -/
def lookupValue : List StateDef → String → Option StateDef
  | [], _ => none
  | s :: rest, v =>
    match lookupValue rest v with
    | some r => some r
    | none => if s.value = v then some s else none

/-- `state == machine.current_state` (`State.__eq__`: same name and same id). -/
def isCurrent (cur : Option StateDef) (s : StateDef) : Bool :=
  match cur with
  | none => false
  | some c => decide (s.name = c.name ∧ s.id = c.id)

def stateLabel (s : StateDef) : StateLabel :=
  { name := s.name, entry := s.enter, exit := s.exit,
    internals := (s.trans.filter (·.internal)).map fun t => (t.events, t.on) }

def stateNode (cur : Option StateDef) (s : StateDef) : Node :=
  { id := s.id, label := some (stateLabel s),
    peripheries := some (if s.final then 2 else 1),
    highlighted := isCurrent cur s }

def transEdge (s : StateDef) (t : TransDef) : Edge :=
  { src := s.id, dst := t.target, label := ⟨t.events, t.guards⟩ }

/-- inner loop of `get_graph`: `for transition in state.transitions: if internal: continue; add_edge` -/
def transItems (s : StateDef) : List TransDef → List Item
  | [] => []
  | t :: ts => if t.internal then transItems s ts else .edge (transEdge s t) :: transItems s ts

/-- outer loop of `get_graph`: `for state in machine.states: add_node; <inner loop>` -/
def stateItems (cur : Option StateDef) : List StateDef → List Item
  | [] => []
  | s :: ss => .node (stateNode cur s) :: (transItems s s.trans ++ stateItems cur ss)

def build (m : Machine) (ini : StateDef) (cur : Option StateDef) : Graph :=
  ⟨.node initNode :: .edge (initEdge ini) :: stateItems cur m.states⟩

inductive Err
  /-- abstract machine: `machine.initial_state` is `None` -/
  | noInitialState
  /-- `machine.current_state` raised `InvalidStateValue` -/
  | invalidStateValue
deriving DecidableEq, Repr, Inhabited

def initialState (m : Machine) : Option StateDef := m.states.find? (·.initial)

/-- `DotGraphMachine(subject).get_graph()` -/
def getGraph (m : Machine) (sub : Subject) : Except Err Graph :=
  match initialState m with
  | none => .error .noInitialState
  | some ini =>
    match sub with
    | .cls => .ok (build m ini none)
    | .inst v =>
      match lookupValue m.states v with
      | none => .error .invalidStateValue
      | some c => .ok (build m ini (some c))
    | .unset => .ok (build m ini none)

/-! ## Rendering of the label strings (used by the driver; compared byte for byte) -/

def joinWith (sep : String) (xs : List String) : String := sep.intercalate xs

def renderGuard (g : Guard) : String := if g.expected then g.name else "!" ++ g.name

/-- `f"{transition.event}{cond}"` -/
def renderEdgeLabel (l : EdgeLabel) : String :=
  let ev := joinWith " " l.events
  let cond := joinWith ", " (l.guards.map renderGuard)
  if cond = "" then ev else ev ++ "\n[" ++ cond ++ "]"

/-- `f"{state.name}{actions}"` with `actions` as built by `_state_actions` -/
def renderStateLabel (l : StateLabel) : String :=
  let entry := joinWith ", " l.entry
  let exit := joinWith ", " l.exit
  let internal := joinWith ", " (l.internals.map fun (ev, on) => joinWith " " ev ++ " / " ++ joinWith ", " on)
  let entry := if entry = "" then "" else "entry / " ++ entry
  let exit := if exit = "" then "" else "exit / " ++ exit
  let actions := joinWith "\n" ([entry, exit, internal].filter (· ≠ ""))
  if actions = "" then l.name else l.name ++ "\n" ++ actions

end SMV.Diagram
