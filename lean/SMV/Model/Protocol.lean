/-!
# Protocol — interleaving semantics of `put` / try-acquire / drain / release  (C06)

Model of the drain-election protocol of `processing_loop`
(`statemachine/engines/sync.py`, `statemachine/engines/async_.py`, `base.py: put, Lock`) run by
**any number of concurrent senders under any interleaving**.

Shared state: the engine `queue` (a FIFO of pending events), the processing `lock`
(`threading.Lock`, only ever taken with `acquire(blocking=False)`), and three ghost fields used only
to state the property: `history` (every event ever enqueued, in enqueue order, tagged with the sender
that enqueued it), `processed` (events whose callback sequence has finished, in that order), `cur`
(the event whose callbacks are running now) and `log` (begin/end marks of callback sequences).

Each sender `i : Nat` has a program counter:

| pc            | position in `Event.__call__` / `processing_loop`                              |
|---------------|--------------------------------------------------------------------------------|
| `idle`        | not inside a send (before `put`, or after `processing_loop` returned)          |
| `putDone`     | `put` done, about to execute `self._processing.acquire(blocking=False)`        |
| `check`       | holds the lock, about to evaluate `while self._external_queue`                 |
| `processing e`| holds the lock, popped `e`, its callbacks are running (`_trigger`)             |
| `exiting`     | holds the lock, saw the queue empty, about to `release()` (the `finally`)      |
| `recheck`     | (repaired thread engine only) released, about to evaluate `if self._external_queue` |

One `Step` is one atomic action of one sender. Flags:

* `fixed` — the sync engine after fix commit D15: after the release the queue is tested again and,
  if non-empty, `processing_loop()` is entered again (`recheckMore` → `putDone`).
  `fixed = false` is the protocol without the re-check (the pinned 2.5.0 sync engine, and the async
  engine as it is).
* `atomic` — the asyncio variant: there is no `await` between the last `while` test and
  `release()`, so for asyncio tasks the pair is one step `emptyRelease`; `empty`/`exiting` never occur.

A nested send from a callback (`nested`) is made by the lock holder while `processing`: it enqueues
and its own non-blocking acquire fails (the lock is not re-entrant and the holder holds it), which has
no effect on the shared state — so it is one step.

Granularity: one step = one source line of the dispatch code / one atomic C-level operation
(`deque.append`, `deque.popleft`, `Lock.acquire(blocking=False)`, `Lock.release`, `bool(deque)`).
Not modelled: preemption *inside* such an operation, the failure path (a raising callback clears the
queue), and blocking acquires (the library never blocks on this lock).

No imports: the driver `drv_protocol` compiles natively.
-/
namespace SMV.Protocol

/-- An event instance: who enqueued it, and a caller-chosen identifier. -/
structure Ev where
  sender : Nat
  id : Nat
deriving DecidableEq, Repr, Inhabited, Hashable

inductive Pc
  | idle
  | putDone
  | check
  | processing (e : Ev)
  | exiting
  | recheck
deriving DecidableEq, Repr, Inhabited

/-- begin / end of the callback sequence of one event -/
inductive Mark
  | beg (e : Ev)
  | fin (e : Ev)
deriving DecidableEq, Repr

structure S where
  pc : Nat → Pc
  queue : List Ev
  lock : Bool
  /-- ghost: event whose callbacks are running -/
  cur : Option Ev
  /-- ghost: events whose callback sequence finished, in order -/
  processed : List Ev
  /-- ghost: all puts so far, in put order -/
  history : List Ev
  /-- ghost: begin/end marks of callback sequences, in order -/
  log : List Mark

/-- the sender is inside the critical section (between a successful acquire and the release) -/
def inCS : Pc → Prop
  | .check | .processing _ | .exiting => True
  | _ => False

instance : DecidablePred inCS := fun p => by cases p <;> simp [inCS] <;> infer_instance

def set (f : Nat → Pc) (i : Nat) (p : Pc) : Nat → Pc := fun j => if j = i then p else f j

/-- One atomic action of one sender. -/
inductive Step (fixed atomic : Bool) : S → S → Prop
  /-- `Event.__call__` → `engine.put`: `deque.append` -/
  | put (s i id) (h : s.pc i = .idle) :
      Step fixed atomic s { s with pc := set s.pc i .putDone, queue := s.queue ++ [⟨i, id⟩],
                                   history := s.history ++ [⟨i, id⟩] }
  /-- `acquire(blocking=False)` returned `True` -/
  | acqOk (s i) (h : s.pc i = .putDone) (hl : s.lock = false) :
      Step fixed atomic s { s with pc := set s.pc i .check, lock := true }
  /-- `acquire(blocking=False)` returned `False`: `return None` -/
  | acqFail (s i) (h : s.pc i = .putDone) (hl : s.lock = true) :
      Step fixed atomic s { s with pc := set s.pc i .idle }
  /-- `while queue:` true, `popleft()`; the callbacks of `e` start -/
  | pop (s i e q) (h : s.pc i = .check) (hq : s.queue = e :: q) :
      Step fixed atomic s { s with pc := set s.pc i (.processing e), queue := q, cur := some e,
                                   log := s.log ++ [.beg e] }
  /-- a callback of the event in progress sends a nested event: put + failed acquire -/
  | nested (s i e id) (h : s.pc i = .processing e) :
      Step fixed atomic s { s with queue := s.queue ++ [⟨i, id⟩], history := s.history ++ [⟨i, id⟩] }
  /-- `_trigger` returned: the callbacks of `e` are over -/
  | done (s i e) (h : s.pc i = .processing e) :
      Step fixed atomic s { s with pc := set s.pc i .check, processed := s.processed ++ [e], cur := none,
                                   log := s.log ++ [.fin e] }
  /-- threads: `while queue:` false; the `finally` is next -/
  | empty (s i) (h : s.pc i = .check) (hq : s.queue = []) (ha : atomic = false) :
      Step fixed atomic s { s with pc := set s.pc i .exiting }
  /-- asyncio: `while queue:` false and `release()` with no `await` in between -/
  | emptyRelease (s i) (h : s.pc i = .check) (hq : s.queue = []) (ha : atomic = true) :
      Step fixed atomic s { s with pc := set s.pc i .idle, lock := false }
  /-- `self._processing.release()` -/
  | release (s i) (h : s.pc i = .exiting) :
      Step fixed atomic s { s with pc := set s.pc i (if fixed then .recheck else .idle), lock := false }
  /-- repaired engine: `if self._external_queue:` false → return -/
  | recheckEmpty (s i) (h : s.pc i = .recheck) (hq : s.queue = []) :
      Step fixed atomic s { s with pc := set s.pc i .idle }
  /-- repaired engine: `if self._external_queue:` true → `self.processing_loop()` again -/
  | recheckMore (s i) (h : s.pc i = .recheck) (hq : s.queue ≠ []) :
      Step fixed atomic s { s with pc := set s.pc i .putDone }

def init : S :=
  { pc := fun _ => .idle, queue := [], lock := false, cur := none, processed := [], history := [], log := [] }

/-- reachable under some interleaving of any number of senders -/
inductive Reach (fixed atomic : Bool) : S → Prop
  | init : Reach fixed atomic init
  | step {s s'} : Reach fixed atomic s → Step fixed atomic s s' → Reach fixed atomic s'

/-! ## Executable form (used by the driver; proved equivalent to `Step` in `SMV.Lemmas.Protocol`) -/

inductive Label
  | put (i id : Nat)
  | acqOk (i : Nat)
  | acqFail (i : Nat)
  | pop (i : Nat)
  | nested (i id : Nat)
  | done (i : Nat)
  | empty (i : Nat)
  | emptyRelease (i : Nat)
  | release (i : Nat)
  | recheckEmpty (i : Nat)
  | recheckMore (i : Nat)
deriving DecidableEq, Repr, Inhabited

def Label.actor : Label → Nat
  | .put i _ | .acqOk i | .acqFail i | .pop i | .nested i _ | .done i | .empty i
  | .emptyRelease i | .release i | .recheckEmpty i | .recheckMore i => i

/-- the successor state if the labelled action is enabled -/
def step? (fixed atomic : Bool) (s : S) : Label → Option S
  | .put i id =>
    match s.pc i with
    | .idle => some { s with pc := set s.pc i .putDone, queue := s.queue ++ [⟨i, id⟩],
                             history := s.history ++ [⟨i, id⟩] }
    | _ => none
  | .acqOk i =>
    match s.pc i, s.lock with
    | .putDone, false => some { s with pc := set s.pc i .check, lock := true }
    | _, _ => none
  | .acqFail i =>
    match s.pc i, s.lock with
    | .putDone, true => some { s with pc := set s.pc i .idle }
    | _, _ => none
  | .pop i =>
    match s.pc i, s.queue with
    | .check, e :: q => some { s with pc := set s.pc i (.processing e), queue := q, cur := some e,
                                      log := s.log ++ [.beg e] }
    | _, _ => none
  | .nested i id =>
    match s.pc i with
    | .processing _ => some { s with queue := s.queue ++ [⟨i, id⟩], history := s.history ++ [⟨i, id⟩] }
    | _ => none
  | .done i =>
    match s.pc i with
    | .processing e => some { s with pc := set s.pc i .check, processed := s.processed ++ [e], cur := none,
                                     log := s.log ++ [.fin e] }
    | _ => none
  | .empty i =>
    match s.pc i, s.queue, atomic with
    | .check, [], false => some { s with pc := set s.pc i .exiting }
    | _, _, _ => none
  | .emptyRelease i =>
    match s.pc i, s.queue, atomic with
    | .check, [], true => some { s with pc := set s.pc i .idle, lock := false }
    | _, _, _ => none
  | .release i =>
    match s.pc i with
    | .exiting => some { s with pc := set s.pc i (if fixed then .recheck else .idle), lock := false }
    | _ => none
  | .recheckEmpty i =>
    match s.pc i, s.queue with
    | .recheck, [] => some { s with pc := set s.pc i .idle }
    | _, _ => none
  | .recheckMore i =>
    match s.pc i, s.queue with
    | .recheck, _ :: _ => some { s with pc := set s.pc i .putDone }
    | _, _ => none

/-- run a label sequence from `s`; `none` as soon as a label is not enabled -/
def run? (fixed atomic : Bool) (s : S) : List Label → Option S
  | [] => some s
  | l :: ls => match step? fixed atomic s l with
    | some s' => run? fixed atomic s' ls
    | none => none

/-- labels enabled for sender `i` in `s`, apart from `put`/`nested` (whose ids the caller chooses) -/
def enabledOf (fixed atomic : Bool) (s : S) (i : Nat) : List Label :=
  [Label.acqOk i, .acqFail i, .pop i, .done i, .empty i, .emptyRelease i, .release i,
   .recheckEmpty i, .recheckMore i].filter fun l => (step? fixed atomic s l).isSome

end SMV.Protocol
