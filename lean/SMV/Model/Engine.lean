import SMV.Model.Core
/-!
# The engine model

One definition for both processing modes: every function takes the handler `h : Nested` that says
what `sm.send(e)` does when it is called from inside a callback.

* run-to-completion (`rtc=True`, sync and async engines): the lock is held, the event is only
  enqueued and the call returns `None` (`nestedRtc`);
* `rtc=False`: the event is put and popped at once and runs depth-first (`sendNR`, recursion on fuel).

Source: `engines/sync.py` (`processing_loop`, `_trigger`, `_activate`), `engines/async_.py`
(same sequence, awaited), `engines/base.py` (`start`, `_initial_transition`), `event.py`
(`Event.__call__`), `callbacks.py` (`CallbacksExecutor.call/all`, `CallbackWrapper`).
-/
namespace SMV

/-- what `sm.send(e)` does when called from inside a callback -/
abbrev Nested := EventId → EM Res

/-- what the callbacks of one activation are told: the trigger, `source`, `target` -/
structure Ctx where
  t   : Trigger
  src : Option StateId
  tgt : StateId
deriving Repr

def logAppend (es : List Entry) : EM Unit :=
  EM.modify fun c => { c with log := c.log ++ es }

/-- the nested sends of one callback invocation, in order; each result is handed back; the value is the result of
the last one (`last` when there is none) -/
def sendsLoop (h : Nested) (x : Ctx) (ph : Phase) (cb : CbId) : Option Res → List EventId → EM (Option Res)
  | last, [] => pure last
  | _, e :: es => do
    let r ← h e
    logAppend [.sendRet x.t.tid ph cb r]
    sendsLoop h x ph cb (some r) es

/-- what a callback invocation hands back: its own value, or — an event used as a callback — the result of the
event it sent -/
def retOf (m : Machine) (a : Act) (last : Option Res) : Val :=
  match a.retSend, last with
  | true, some r => m.resVal r
  | _, _ => a.ret

/-- one callback invocation -/
def runCb (h : Nested) (m : Machine) (x : Ctx) (ph : Phase) (cb : CbId) : EM Val := do
  let cfg ← EM.get
  let a := m.behav cb cfg.nextInv { tid := x.t.tid, state := cfg.cur, event := x.t.event }
  EM.modify fun c => { c with
    log := c.log ++ [.cbBegin x.t.tid ph cb c.cur x.t.event x.src x.tgt]
    nextInv := c.nextInv + 1 }
  let last ← sendsLoop h x ph cb none a.sends
  match a.raises with
  | some e => EM.throw (.user e)
  | none =>
    logAppend [.cbEnd x.t.tid ph cb (retOf m a last)]
    pure (retOf m a last)

/-- `CallbacksExecutor.call`: every callback of the group, results collected -/
def runGroup (h : Nested) (m : Machine) (x : Ctx) (ph : Phase) : List CbId → EM (List Val)
  | [] => pure []
  | c :: cs => do
    let v ← runCb h m x ph c
    let vs ← runGroup h m x ph cs
    pure (v :: vs)

/-- `CallbacksExecutor.all`: conjunction, left to right, stop at the first failing guard;
`bool(value) == expected_value` -/
def runConds (h : Nested) (m : Machine) (x : Ctx) : List (CbId × Bool) → EM Bool
  | [] => pure true
  | (c, expected) :: cs => do
    let v ← runCb h m x .cond c
    if m.truthy v == expected then runConds h m x cs else pure false

/-- per-callback condition (`is_same_event`) filters event-named convention callbacks -/
def applicable (ev : EventId) (l : List CbSpec) : List CbId :=
  (l.filter (fun s => match s.only with | none => true | some e => e == ev)).map (·.id)

def setState (t : Trigger) (v : Val) : EM Unit :=
  EM.modify fun cfg => { cfg with cur := some v, log := cfg.log ++ [.setState t.tid v] }

/-- first half of `_activate`, up to and including the `on` group: validators (all called), guards
(conjunction), `before`, `exit(source)`, `on`. `none` = guards rejected; `some rs` = the `before`
results followed by the `on` results. The model field is not written here. -/
def activatePre (h : Nested) (m : Machine) (t : Trigger) (tr : Transn) : EM (Option (List Val)) := do
  let x : Ctx := { t := t, src := some tr.source, tgt := tr.target }
  let _ ← runGroup h m x .validators tr.validators
  let ok ← runConds h m x tr.conds
  if !ok then return none
  let r1 ← runGroup h m x .before (applicable t.event tr.before)
  let _ ← runGroup h m x .exit (if tr.internal then [] else (stateDef m tr.source).exit)
  let r2 ← runGroup h m x .on (applicable t.event tr.on)
  return some (r1 ++ r2)

/-- second half of `_activate`: assign the model field, `enter(target)`, `after` -/
def activatePost (h : Nested) (m : Machine) (t : Trigger) (tr : Transn) : EM Unit := do
  let x : Ctx := { t := t, src := some tr.source, tgt := tr.target }
  setState t (stateVal m tr.target)
  let _ ← runGroup h m x .enter (if tr.internal then [] else (stateDef m tr.target).enter)
  let _ ← runGroup h m x .after (applicable t.event tr.after)
  pure ()

/-- `_activate`: `none` = guards rejected; `some r` = executed with result `r` -/
def activate (h : Nested) (m : Machine) (t : Trigger) (tr : Transn) : EM (Option Res) := do
  match ← activatePre h m t tr with
  | none => pure none
  | some rs => do
    activatePost h m t tr
    pure (some (unwrap rs))

/-- `Events.match`: exact membership -/
def matchesEv (tr : Transn) (e : EventId) : Bool := tr.events.contains e

/-- candidate loop of `_trigger`: first executed transition wins -/
def tryCands (h : Nested) (m : Machine) (t : Trigger) : List Transn → EM (Option Res)
  | [] => pure none
  | tr :: rest =>
    if matchesEv tr t.event then do
      match ← activate h m t tr with
      | none => tryCands h m t rest
      | some r => pure (some r)
    else tryCands h m t rest

/-- `_get_initial_state` -/
def initialTarget (m : Machine) : Except Exc StateId :=
  match m.startValue with
  | some v => match lookupState m v with
    | some s => .ok s
    | none => .error .invalidState
  | none => match initialState m with
    | some s => .ok s
    | none => .error .invalidState

/-- the `__initial__` pseudo-transition: no specs of its own, anonymous source, enter(target) only -/
def activateInitial (h : Nested) (m : Machine) (t : Trigger) : EM Unit :=
  match initialTarget m with
  | .error e => EM.throw e
  | .ok s => do
    setState t (stateVal m s)
    let _ ← runGroup h m { t := t, src := none, tgt := s } .enter (stateDef m s).enter
    pure ()

/-- `_trigger`; `none` = the sentinel returned for `__initial__`. The reserved name is the
activation trigger only while the model holds no state (after the repair of D23); afterwards it
is an ordinary, undeclared event — except for the engine's own activation trigger (queued by `start()`
while the model was empty): when a state has been stored in the meantime it is resumed, nothing runs
(after the repair of D36). -/
def trigger (h : Nested) (m : Machine) (t : Trigger) : EM (Option Res) := do
  let cfg ← EM.get
  if t.event == initialEv && cfg.cur.isNone then do
    activateInitial h m t
    pure none
  else if t.event == initialEv && t.internal then pure none
  else
    match cfg.cur.bind (lookupState m) with
    | none => EM.throw .invalidState
    | some s =>
      match ← tryCands h m t (out m s) with
      | some r => pure (some r)
      | none => if m.allow then pure (some .none) else EM.throw (.notAllowed t.event s)

/-- `engine.put` with the trigger id allocated at send time -/
def enqueue (e : EventId) : EM Unit :=
  EM.modify fun c => { c with queue := c.queue ++ [{ tid := c.nextTid, event := e }], nextTid := c.nextTid + 1 }

/-- RTC: a nested send only enqueues (the lock is held by the drainer) and returns `None` -/
def nestedRtc : Nested := fun e => do enqueue e; pure .none

/-- one iteration of `while self._external_queue:` including the `except: clear; raise` -/
def drainStep (m : Machine) (cfg : Cfg) : Cfg :=
  match cfg.queue with
  | [] => cfg
  | t :: q =>
    match trigger nestedRtc m t { cfg with queue := q } with
    | (cfg', .ok _) => cfg'
    | (cfg', .error _) => { cfg' with queue := [] }

def orFirst (first : Option Res) (r : Option Res) : Option Res :=
  match first with
  | some f => some f
  | none => r

/-- the drain loop with `first_result`; fuel bounds the number of events processed -/
def drainLoop (m : Machine) : Nat → Option Res → EM Res
  | 0, first => fun cfg => match cfg.queue with
    | [] => (cfg, .ok (first.getD .none))
    | _ => (cfg, .error .fuel)
  | n + 1, first => fun cfg =>
    match cfg.queue with
    | [] => (cfg, .ok (first.getD .none))
    | t :: q =>
      match trigger nestedRtc m t { cfg with queue := q } with
      | (cfg', .ok r) => drainLoop m n (orFirst first r) cfg'
      | (cfg', .error e) => ({ cfg' with queue := [] }, .error e)

/-- RTC `processing_loop`: non-blocking acquire; the winner drains; release in `finally` -/
def processRtc (m : Machine) (fuel : Nat) : EM Res := fun cfg =>
  if cfg.locked then (cfg, .ok .none)
  else
    let r := drainLoop m fuel none { cfg with locked := true }
    ({ r.1 with locked := false }, r.2)

/-- non-RTC `processing_loop`: pop one trigger (if any) and run it now -/
def popTrigger (h : Nested) (m : Machine) : EM Res := fun cfg =>
  match cfg.queue with
  | [] => (cfg, .ok .none)
  | t :: q =>
    match trigger h m t { cfg with queue := q } with
    | (cfg', .ok (some r)) => (cfg', .ok r)
    | (cfg', .ok none) => (cfg', .ok .none)
    | (cfg', .error e) => (cfg', .error e)

/-- non-RTC `Event.__call__`: put, then process at once; nested sends recurse (fuel) -/
def sendNR (m : Machine) : Nat → Nested
  | 0, _ => EM.throw .fuel
  | fuel + 1, e => do
    enqueue e
    popTrigger (sendNR m fuel) m

inductive Kind | sync | async
deriving DecidableEq, Repr, Inhabited

structure Opts where
  rtc  : Bool := true
  kind : Kind := .sync
deriving Repr, Inhabited

/-- `processing_loop` of the engine selected by the options -/
def process (m : Machine) (o : Opts) (fuel : Nat) : EM Res :=
  if o.rtc then processRtc m fuel else popTrigger (sendNR m fuel) m

/-- `Event.__call__` from outside any callback -/
def send (m : Machine) (o : Opts) (fuel : Nat) (e : EventId) : EM Res := do
  enqueue e
  process m o fuel

/-- the activation trigger of `BaseEngine.start` -/
def enqueueActivation : EM Unit :=
  EM.modify fun c => { c with queue := c.queue ++ [{ tid := c.nextTid, event := initialEv, internal := true }],
                              nextTid := c.nextTid + 1 }

/-- `BaseEngine.start`: queue `__initial__` iff the model holds no state -/
def start : EM Unit := do
  let cfg ← EM.get
  if cfg.cur.isNone then enqueueActivation else pure ()

/-- `StateMachine.__init__` from the engine's point of view -/
def construct (m : Machine) (o : Opts) (fuel : Nat) : EM Unit :=
  if o.kind == .async && !o.rtc then EM.throw .invalidDef
  else do
    start
    if o.kind == .sync then do
      let _ ← process m o fuel
      pure ()
    else pure ()

/-- `activate_initial_state()` -/
def activateOp (m : Machine) (o : Opts) (fuel : Nat) : EM Res := process m o fuel

def iter {α} (f : α → α) : Nat → α → α
  | 0, a => a
  | n + 1, a => iter f n (f a)

end SMV

namespace SMV

/-- the operations a caller outside any callback can perform on one machine -/
inductive Op
  | construct
  | send (e : EventId)
  | activate
deriving Repr, DecidableEq

def stepOp (m : Machine) (o : Opts) (fuel : Nat) : Op → EM Res
  | .construct => do construct m o fuel; pure .none
  | .send e => send m o fuel e
  | .activate => activateOp m o fuel

/-- a history of operations; an exception reaches the caller, who carries on with the next one -/
def runOps (m : Machine) (o : Opts) (fuel : Nat) : List Op → Cfg → Cfg
  | [], c => c
  | op :: ops, c => runOps m o fuel ops (stepOp m o fuel op c).1

end SMV

namespace SMV

/-- what can happen to a machine *and around it* between two of its own transitions: its own operations, an
external write of the model field (`setattr(model, state_field, v)` by anyone), and a new machine object over
the same model (a restart; also what `copy.deepcopy` / pickle produce: `__setstate__` builds a fresh engine and
starts it) -/
inductive HOp
  | op (o : Op)
  | write (v : Option Val)
  | reconstruct
deriving Repr, DecidableEq

def stepH (m : Machine) (o : Opts) (fuel : Nat) : HOp → Cfg → Cfg
  | .op x, c => (stepOp m o fuel x c).1
  | .write v, c => { c with cur := v }
  | .reconstruct, c => (construct m o fuel { c with queue := [], locked := false }).1

/-- a general history: every step names the machine in force at that moment, so listeners attached late
(`add_listener`: more callbacks in the executors), options assigned after construction
(`allow_event_without_transition`), another `start_value` … are all covered -/
def runHist (o : Opts) (fuel : Nat) : List (Machine × HOp) → Cfg → Cfg
  | [], c => c
  | (m, h) :: rest, c => runHist o fuel rest (stepH m o fuel h c)

end SMV

namespace SMV

/-- keep the first occurrence of every element (`dict` insertion order in `unique_events`) -/
def dedupe : List Nat → List Nat
  | [] => []
  | x :: xs => x :: (dedupe xs).filter (· != x)

/-- `sm.allowed_events`: unique events of the current state's transitions, in order of first use -/
def allowedEvents (m : Machine) (s : StateId) : List EventId :=
  dedupe ((out m s).flatMap (·.events))

/-- `sm.events`: every event bound to some transition (order of registration not modelled: a set) -/
def allEvents (m : Machine) : List EventId :=
  dedupe (m.states.flatMap fun sd => sd.trans.flatMap (·.events))

end SMV
