import SMV.Model.World
/-!
# The callback registry of a constructed / extended / cloned instance

`statemachine.py`:
* `__init__` calls `_register_callbacks(listeners)`: every callback spec is resolved against the
  provider list `[machine, model, *listeners]` in one pass (`Prov.attach [] ps names`), then `check`
  (every non-convention spec — named or inline — needs at least one resolved callback, otherwise
  `InvalidDefinition`), then `async_or_sync` (`has_async_callbacks` = some resolved callback is a
  coroutine function); `_get_engine` picks the `AsyncEngine` iff `has_async_callbacks`.
* `add_listener(*ls)` resolves the names against `[*ls]` only and appends to the executors; the
  engine is *not* chosen again (known finding D12).
* `__setstate__`, three generations:
  - as the pinned tree had it (`setstate false`): `_register_callbacks([])` — check and engine choice on
    machine + model only — and afterwards `add_listener(*listeners)`;
  - after the repair of D25 (`setstate true`): `_register_callbacks(listeners)`, every remembered listener in
    the constructor pass (same *set* of resolved callbacks as the original, `C17_registry_late`, but guard
    *expressions* are then built over all providers at once: D29);
  - now (`setstateReplay`, repair of D29): the listeners of every `add_listener` call are remembered
    (`_listener_passes`) and the passes are replayed: constructor pass, check, engine choice, then one
    `add_listener` per remembered call — literally what the original went through (`original`).

Executable definitions only. Abstractions: one flat executor for all callback groups (the key is
(name, provider), which is what `CallbacksExecutor.add` deduplicates on within one group; `names`
lists the names of all specs), `isCoro` stands for `iscoroutinefunction` of the resolved callable.
-/
deriving instance DecidableEq for Except

namespace SMV.Prov

/-- per-instance registry and the engine chosen for the instance -/
structure Reg where
  items : List Item
  kind : Kind
deriving Repr, DecidableEq

/-- `CallbacksRegistry.check`: every required (non-convention) name has at least one item -/
def checkNames (ex : List Item) (required : List Name) : Bool :=
  required.all fun n => ex.any fun it => it.name == n

/-- `async_or_sync`: some resolved callback is a coroutine function -/
def hasAsync (isCoro : CbId → Bool) (ex : List Item) : Bool := ex.any fun it => isCoro it.cb

/-- the constructor's `_register_callbacks(listeners)` + `_get_engine`, `ps = [machine, model, *listeners]` -/
def registerAll (isCoro : CbId → Bool) (ps : List Provider) (names required : List Name) : Except Exc Reg :=
  let ex := attach [] ps names
  if checkNames ex required then .ok ⟨ex, if hasAsync isCoro ex then .async else .sync⟩
  else .error .invalidDef

/-- late `add_listener(*ls)`: names resolved against the new listeners only; engine kept (D12) -/
def addListeners (r : Reg) (ls : List Provider) (names : List Name) : Reg :=
  { r with items := attach r.items ls names }

/-- `__setstate__`; `mm = [machine, model]`, `ls` = the pickled/copied listeners.
`fixed = false` is the code before the repair of D25: check and engine choice happen before the
listeners are back. -/
def setstate (fixed : Bool) (isCoro : CbId → Bool) (mm ls : List Provider) (names required : List Name) :
    Except Exc Reg :=
  if fixed then registerAll isCoro (mm ++ ls) names required
  else
    match registerAll isCoro mm names required with
    | .ok r => .ok (addListeners r ls names)
    | .error e => .error e

/-- what an instance went through: constructed over `mm ++ ctor`, then one `add_listener(*ls)` per element of
`lates`, in order -/
def original (isCoro : CbId → Bool) (mm ctor : List Provider) (lates : List (List Provider))
    (names required : List Name) : Except Exc Reg :=
  match registerAll isCoro (mm ++ ctor) names required with
  | .ok r => .ok (lates.foldl (fun r ls => addListeners r ls names) r)
  | .error e => .error e

/-- `__setstate__` as it is now: `passes[0]` with the machine and the model through `_register_callbacks`
(check, engine choice), then `add_listener(*late)` for every later pass -/
def setstateReplay (isCoro : CbId → Bool) (mm : List Provider) (passes : List (List Provider))
    (names required : List Name) : Except Exc Reg :=
  match registerAll isCoro (mm ++ passes.headD []) names required with
  | .ok r => .ok (passes.tail.foldl (fun r ls => addListeners r ls names) r)
  | .error e => .error e

end SMV.Prov
