import SMV.Model.World
/-!
# The callback registry: from declared specs and attached providers to the engine's callback lists

Model of `callbacks.py` (`CallbackSpec`, `CallbacksExecutor.add` with its priority `insort` and its
`items_already_seen` keys, `SpecReference`), `dispatcher.py` (`Listeners.resolve/build/search_name`,
`_search_callable`) and `StateMachine._register_callbacks/add_listener` — what turns

* the **specs** a class declares for one owner (a transition or a state) — inline names, inline
  callables, decorated functions, and the convention names `before_transition`, `before_<event>`, …
  `on_enter_state`, `on_enter_<id>` added by `_setup`, each with its group, priority and (for
  event-named conventions) the event it is scoped to — and
* the ordered list of **providers** attached to an instance (`machine`, `model`, listeners; late
  listeners attached one call at a time)

into the per-group callback lists (`Transn.validators/conds/before/on/after`, `StateDef.enter/exit`)
that `SMV.Model.Engine` interprets. The line-protocol driver builds every engine scenario's machine
with `buildStates`, so this is the code path every engine-level correspondence run validates against
the real library.

Executable definitions only (no proofs, no Mathlib): the driver must compile natively.
-/
namespace SMV.Reg

open SMV.Prov

/-- the callback groups of `CallbackGroup`; `cond` and `unless` share the `cond` executor -/
inductive Group | validators | cond | before | on | after | enter | exit
deriving DecidableEq, Repr, Inhabited

/-- what a spec refers to -/
inductive Ref
  /-- an attribute name, looked up on every provider (`SpecReference.NAME`) -/
  | name (n : Name)
  /-- a callable given inline or by decorator (`SpecReference.CALLABLE`): provider independent -/
  | callable (cb : CbId)
deriving DecidableEq, Repr, Inhabited

structure Spec where
  group : Group
  ref : Ref
  /-- `CallbackPriority`: GENERIC 0, INLINE 10, DECORATOR 20, NAMING 30, AFTER 40 -/
  prio : Nat := 10
  /-- `cond=event.is_same_event` of `before_<e>` / `on_<e>` / `after_<e>` -/
  only : Option EventId := none
  /-- guards: `cond` expects a truthy value, `unless` a falsy one -/
  expected : Bool := true
deriving Repr, Inhabited

/-- the `unique_key` of a resolved callback: `name@id(provider)` or `name@id(callable)` -/
inductive Key
  | named (n : Name) (p : ProvId)
  | callable (cb : CbId)
deriving DecidableEq, Repr, Inhabited

/-- a `CallbackWrapper` inside an executor -/
structure Entry where
  key : Key
  cb : CbId
  prio : Nat
  only : Option EventId
  expected : Bool
deriving Repr, Inhabited

/-- one executor (`registry[owner, group]`): the wrappers in call order -/
abbrev Exec := List Entry

/-- `items_already_seen`: the key together with the expected guard value — `cond="x"` and `unless="x"` on one
transition are two guards (since the repair of D32; before it the key alone, and the second entry was lost) -/
def Entry.dk (e : Entry) : Key × Bool := (e.key, e.expected)

def seen (ex : Exec) (k : Key × Bool) : Bool := ex.any (·.dk == k)

/-- `bisect.insort` (= `insort_right`) on `CallbackWrapper.__lt__` (priority): after every entry whose
priority is not greater -/
def insort (e : Entry) : Exec → Exec
  | [] => [e]
  | x :: xs => if e.prio < x.prio then e :: x :: xs else x :: insort e xs

/-- `CallbacksExecutor.add`: ignored when the key was already seen -/
def add (ex : Exec) (e : Entry) : Exec := if seen ex e.dk then ex else insort e ex

/-- `Listeners.build(spec)`: one (key, callback) per provider that has the attribute, in provider
order; a callable spec yields itself, independent of the providers -/
def buildSpec (ps : List Provider) (s : Spec) : List Entry :=
  match s.ref with
  | .callable cb => [{ key := .callable cb, cb := cb, prio := s.prio, only := s.only, expected := s.expected }]
  | .name n => ps.filterMap fun p =>
      (offers p n).map fun cb => { key := .named n p.id, cb := cb, prio := s.prio, only := s.only, expected := s.expected }

/-- `Listeners.resolve` restricted to one group's executor. `safe = true` is `SPECS_SAFE`
(`add_listener`): only name references are resolved. -/
def resolveInto (safe : Bool) (ps : List Provider) (g : Group) (ex : Exec) (specs : List Spec) : Exec :=
  specs.foldl (fun ex s =>
    if s.group != g then ex
    else match s.ref, safe with
      | .callable _, true => ex
      | _, _ => (buildSpec ps s).foldl add ex) ex

/-- the executor of group `g` of one owner for an instance constructed with providers `ctor`
(`[machine, model, *listeners]`, one pass) and then extended by `late` attachments, each an
`add_listener(*ls)` call -/
def executor (specs : List Spec) (ctor : List Provider) (late : List (List Provider)) (g : Group) : Exec :=
  late.foldl (fun ex ls => resolveInto true ls g ex specs) (resolveInto false ctor g [] specs)

def ids (ex : Exec) : List CbId := ex.map (·.cb)
def scopedIds (ex : Exec) : List CbSpec := ex.map fun e => { id := e.cb, only := e.only }
def guards (ex : Exec) : List (CbId × Bool) := ex.map fun e => (e.cb, e.expected)

/-- a transition as the class declares it -/
structure TransDecl where
  source : StateId
  target : StateId
  events : List EventId
  internal : Bool := false
  specs : List Spec := []
deriving Repr, Inhabited

/-- a state as the class declares it -/
structure StateDecl where
  value : Val
  initial : Bool := false
  final : Bool := false
  specs : List Spec := []
deriving Repr, Inhabited

def buildTransn (ctor : List Provider) (late : List (List Provider)) (t : TransDecl) : Transn :=
  let ex := executor t.specs ctor late
  { source := t.source, target := t.target, events := t.events, internal := t.internal,
    validators := ids (ex .validators), conds := guards (ex .cond),
    before := scopedIds (ex .before), on := scopedIds (ex .on), after := scopedIds (ex .after) }

/-- the states of the machine an instance runs: every owner's executors resolved against the
providers attached so far; a state's outgoing transitions in declaration order -/
def buildStates (states : List StateDecl) (trans : List TransDecl) (ctor : List Provider)
    (late : List (List Provider)) : List StateDef :=
  (List.range states.length).map fun i =>
    let s := states.getD i default
    let ex := executor s.specs ctor late
    { value := s.value, initial := s.initial, final := s.final,
      enter := ids (ex .enter), exit := ids (ex .exit),
      trans := (trans.filter (·.source == i)).map (buildTransn ctor late) }

/-- `CallbacksRegistry.check` (run by the constructor after its one registration pass): a callback the class
names explicitly — inline (`before="log"`, `cond="ok"`, priority INLINE) or by decorator — must have resolved to at
least one callable among the constructor's providers; naming-convention specs are optional -/
def required (s : Spec) : Bool := s.prio == 10 || s.prio == 20

def unresolved (ctor : List Provider) (specs : List Spec) : Bool :=
  specs.any fun s => required s && (buildSpec ctor s).isEmpty

/-- the instance can be constructed (`false`: `InvalidDefinition`, before anything runs) -/
def checkDecls (states : List StateDecl) (trans : List TransDecl) (ctor : List Provider) : Bool :=
  !(states.any (fun d => unresolved ctor d.specs) || trans.any (fun d => unresolved ctor d.specs))

end SMV.Reg
