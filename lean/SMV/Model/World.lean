import SMV.Model.Engine
/-!
# Providers, instances and clones

* `Prov`: how callback *names* are resolved against the ordered provider list
  `[machine, model, *listeners]` into per-instance executor lists keyed by (name, provider)
  (`dispatcher.py: Listeners.resolve/search_name`, `callbacks.py: CallbacksExecutor.add`).
* `World`: several machine instances living in one process, each with its own configuration.
* `clone`: `__getstate__`/`__setstate__` — a copy is a re-construction over the copied model.
-/
namespace SMV

namespace Prov

abbrev Name := Nat
abbrev ProvId := Nat

/-- an object offering attributes: machine, model or a listener -/
structure Provider where
  id : ProvId
  attrs : List (Name × CbId)
deriving Repr, DecidableEq

def lookupAttr : List (Name × CbId) → Name → Option CbId
  | [], _ => none
  | (n, cb) :: rest, k => if n == k then some cb else lookupAttr rest k

def offers (p : Provider) (n : Name) : Option CbId := lookupAttr p.attrs n

/-- one resolved callback of an executor: key = (name, provider) -/
structure Item where
  name : Name
  prov : ProvId
  cb : CbId
deriving Repr, DecidableEq

def hasKey (ex : List Item) (n : Name) (p : ProvId) : Bool := ex.any fun x => x.name == n && x.prov == p

/-- `CallbacksExecutor.add`: ignored when the key was already seen -/
def addKey (ex : List Item) (it : Item) : List Item :=
  if hasKey ex it.name it.prov then ex else ex ++ [it]

/-- resolve one name against the providers, in provider order -/
def resolveName (ex : List Item) (n : Name) : List Provider → List Item
  | [] => ex
  | p :: ps =>
    match offers p n with
    | some cb => resolveName (addKey ex { name := n, prov := p.id, cb := cb }) n ps
    | none => resolveName ex n ps

/-- `_add_listener`: resolve every name of the spec list against the given providers -/
def attach (ex : List Item) (ps : List Provider) : List Name → List Item
  | [] => ex
  | n :: ns => attach (resolveName ex n ps) ps ns

end Prov

/-- several instances in one process: instance `i` has configuration `w[i]`, machine `ms[i]` -/
abbrev World := List Cfg

def stepAt (ms : List Machine) (o : Opts) (fuel : Nat) (i : Nat) (op : Op) (w : World) : World :=
  match ms[i]?, w[i]? with
  | some m, some c => w.set i (stepOp m o fuel op c).1
  | _, _ => w

def runWorld (ms : List Machine) (o : Opts) (fuel : Nat) : List (Nat × Op) → World → World
  | [], w => w
  | (i, op) :: rest, w => runWorld ms o fuel rest (stepAt ms o fuel i op w)

/-- `copy.deepcopy` / pickle round trip: `__getstate__` drops registry, engine and instance-state
cache; `__setstate__` re-registers callbacks against the copied model/listeners, builds a new engine
and (after the repair of D14) starts it. From the engine's point of view: a construction over the
copied model field, with an empty queue and a free lock; log and counters belong to the instance. -/
def clone (m : Machine) (o : Opts) (fuel : Nat) (c : Cfg) : Cfg × Except Exc Unit :=
  construct m o fuel { c with queue := [], locked := false }

end SMV
