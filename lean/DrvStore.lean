import SMV.Model.Store
/-!
# Line-protocol driver for the model-field store (C10)

```
scn store <name>
opt fixed=<0|1> allow=<0|1> initial=<idx> start=<tok|-> model=<none|truthy|falsy> cell=<tok|->
values <tok>,<tok>,…          value of state 0, 1, …
falsy <tok>,…                  tokens whose Python bool() is False
trans <src> <ev> <tgt>
op send <ev> | op wv <tok|-> | op ws <idx> | op raw <tok|-> | op read
end
```
prints `scn <name>`, one `C …` line for the constructor, one `O <i> …` line per operation
(`skipped` after a failed constructor), `end`. Tokens are numbers; `-` is Python's `None`.
-/
open SMV SMV.Store

namespace DrvStore

def splitWs (s : String) : List String := (s.splitOn " ").filter (· ≠ "")

def kvs (toks : List String) : List (String × String) :=
  toks.filterMap fun t =>
    match t.splitOn "=" with
    | k :: v :: rest => some (k, "=".intercalate (v :: rest))
    | _ => none

def look (kv : List (String × String)) (k : String) : String :=
  match kv.find? (·.1 == k) with
  | some (_, v) => v
  | none => "-"

def natOf (s : String) : Nat := s.toNat?.getD 0
def optNat (s : String) : Option Nat := if s == "-" then none else s.toNat?
def natList (s : String) : List Nat :=
  if s == "-" || s == "" then [] else (s.splitOn ",").filterMap String.toNat?

structure Scn where
  name : String := ""
  fixed : Bool := true
  allow : Bool := false
  initial : Nat := 0
  start : Option Val := none
  model : Option UserModel := none
  values : List Val := []
  falsy : List Val := []
  trans : Array Tr := #[]
  ops : Array Op := #[]
deriving Inhabited

def Scn.mach (s : Scn) : Mach :=
  { values := s.values, initial := s.initial, trans := s.trans.toList, allow := s.allow,
    truthy := fun v => !s.falsy.contains v }

def addLine (s : Scn) (toks : List String) : Scn :=
  match toks with
  | "opt" :: rest =>
    let kv := kvs rest
    let cell := optNat (look kv "cell")
    let model : Option UserModel :=
      match look kv "model" with
      | "truthy" => some { truthy := true, cell := cell }
      | "falsy" => some { truthy := false, cell := cell }
      | _ => none
    { s with fixed := look kv "fixed" != "0", allow := look kv "allow" == "1",
             initial := natOf (look kv "initial"), start := optNat (look kv "start"), model := model }
  | ["values", l] => { s with values := natList l }
  | ["falsy", l] => { s with falsy := natList l }
  | ["trans", a, b, c] => { s with trans := s.trans.push ⟨natOf a, natOf b, natOf c⟩ }
  | ["op", "send", e] => { s with ops := s.ops.push (.send (natOf e)) }
  | ["op", "wv", v] => { s with ops := s.ops.push (.writeValue (optNat v)) }
  | ["op", "ws", i] => { s with ops := s.ops.push (.writeState (natOf i)) }
  | ["op", "raw", v] => { s with ops := s.ops.push (.raw (optNat v)) }
  | ["op", "read"] => { s with ops := s.ops.push .read }
  | _ => s

def showOpt : Option Val → String
  | none => "-"
  | some v => toString v

def showExc : Exc → String
  | .invalidState => "invalidstate"
  | .notAllowed e s => s!"notallowed:{e}:{s}"
  | .invalidDef => "invaliddef"
  | .user t => s!"user:{t}"
  | .fuel => "fuel"

def showRes : Except Exc Unit → String
  | .ok _ => "ok"
  | .error e => "err:" ++ showExc e

def showObs (o : Store.Obs) : String :=
  let st := match o.state with
    | .ok s => toString s
    | .error e => "!" ++ showExc e
  let act := String.join (o.active.map fun a =>
    match a with
    | .ok true => "1"
    | .ok false => "0"
    | .error _ => "!")
  s!"f={showOpt o.field} v={showOpt o.value} s={st} a={act} id={if o.ident then 1 else 0}"

def runScn (s : Scn) : List String := Id.run do
  let m := s.mach
  let (st0, r0) := construct s.fixed m s.model s.start
  let mut out : List String := [s!"scn {s.name}"]
  match r0 with
  | .error e =>
    out := out ++ [s!"C err:{showExc e} f={showOpt st0.userView}"]
    for i in [0:s.ops.size] do
      out := out ++ [s!"O {i} skipped"]
  | .ok _ =>
    out := out ++ [s!"C ok {showObs (observe m st0)}"]
    let mut st := st0
    for i in [0:s.ops.size] do
      let (st', r) := step m s.ops[i]! st
      st := st'
      out := out ++ [s!"O {i} {showRes r} {showObs (observe m st)}"]
  return out ++ ["end"]

partial def loop (h : IO.FS.Stream) (cur : Option Scn) : IO Unit := do
  let line ← h.getLine
  if line.isEmpty then return
  let toks := splitWs (line.trimAscii.toString)
  match toks, cur with
  | "scn" :: _ :: name :: _, _ => loop h (some { name := name })
  | ["end"], some s =>
    IO.println ("\n".intercalate (runScn s))
    loop h none
  | _, some s => loop h (some (addLine s toks))
  | _, none => loop h none

end DrvStore

def main : IO Unit := do
  let stdin ← IO.getStdin
  DrvStore.loop stdin none
