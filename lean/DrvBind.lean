import SMV.Model.Binder
/-!
# Line-protocol driver for the binder model (C07)

```
scn <kind> <name>
fixed <0|1>                      -- default 1
sig   <name>:<po|pk|vp|ko|vk>:<0|1> …
args  <v> …
kw    <k>=<v> …
arguments <name>=<one:v | tuple:v,v | dict:k:v,k:v | dflt> …     (kind ba)
b     <k>=<v> …                  -- built-in values of the current event (kinds event)
cb    <id> <ident> <qual> <param> …   -- a callback wrapped (in this order) and called with the current `b`
fwd   <cb id>                    -- that callback calls `sm.send(child, *args', **its_kwargs, **kw')`;
child                            -- the lines after `child` describe the child event: `args`, `kw` (= kw'),
                                 -- `b`, `cb` as above
end
```
kinds: `bind` (model `invoke`, `specCall`, `corner`, `wfB`), `ba` (`baArgs`/`baKwargs`), `call` (`pyCall`),
`event` (reserved-name filter, layering, cache, binder for each `cb`; optional forwarded child event),
`layer` (`extendedKwargs` on unfiltered keywords, `filterReserved`).
All names and values are numbers; the harness owns the string tables.
-/
open SMV.Bind

namespace DrvBind

def splitWs (s : String) : List String := (s.splitOn " ").filter (· ≠ "")
def natOf (s : String) : Nat := s.toNat?.getD 0

def kindOf : String → Kind
  | "po" => .po | "pk" => .pk | "vp" => .vp | "ko" => .ko | _ => .vk

def paramOf (t : String) : Option Param :=
  match t.splitOn ":" with
  | [n, k, d] => some ⟨natOf n, kindOf k, d == "1"⟩
  | _ => none

def kvOf (t : String) : Option (Nat × Nat) :=
  match t.splitOn "=" with
  | [k, v] => some (natOf k, natOf v)
  | _ => none

def pairList (s : String) : KW :=
  if s == "" then [] else
  (s.splitOn ",").filterMap fun t =>
    match t.splitOn ":" with
    | [k, v] => some (natOf k, natOf v)
    | _ => none

def argValOf (s : String) : ArgVal :=
  if s == "dflt" then .dflt
  else if s.startsWith "one:" then .one (natOf (s.drop 4).toString)
  else if s.startsWith "tuple:" then
    let r := (s.drop 6).toString
    .tuple (if r == "" then [] else (r.splitOn ",").map natOf)
  else if s.startsWith "dict:" then .dict (pairList (s.drop 5).toString)
  else .dflt

def entryOf (t : String) : Option (Nat × ArgVal) :=
  match t.splitOn "=" with
  | [k, v] => some (natOf k, argValOf v)
  | _ => none

structure Cb where
  id : Nat
  callable : Callable
  b : KW
deriving Inhabited

structure Scn where
  kind : String := ""
  name : String := ""
  fixed : Bool := true
  sig : List Param := []
  args : List Val := []
  kw : KW := []
  arguments : Arguments := []
  b : KW := []
  cbs : Array Cb := #[]
  fwd : Option Nat := none
  inChild : Bool := false
  args2 : List Val := []
  kw2 : KW := []
  cbs2 : Array Cb := #[]
deriving Inhabited

def addLine (s : Scn) : List String → Scn
  | "fixed" :: v :: _ => { s with fixed := v == "1" }
  | "sig" :: rest => { s with sig := rest.filterMap paramOf }
  | "child" :: _ => { s with inChild := true }
  | "args" :: rest => if s.inChild then { s with args2 := rest.map natOf } else { s with args := rest.map natOf }
  | "kw" :: rest =>
    if s.inChild then { s with kw2 := rest.filterMap kvOf } else { s with kw := rest.filterMap kvOf }
  | "arguments" :: rest => { s with arguments := rest.filterMap entryOf }
  | "b" :: rest => { s with b := rest.filterMap kvOf }
  | "cb" :: id :: ident :: qual :: rest =>
    let cb : Cb := ⟨natOf id, ⟨natOf ident, natOf qual, rest.filterMap paramOf⟩, s.b⟩
    if s.inChild then { s with cbs2 := s.cbs2.push cb } else { s with cbs := s.cbs.push cb }
  | "fwd" :: id :: _ => { s with fwd := some (natOf id) }
  | _ => s

def kwS (kw : KW) : String := ",".intercalate (kw.map fun (k, v) => s!"{k}:{v}")

def argValS : ArgVal → String
  | .one v => s!"one:{v}"
  | .tuple vs => "tuple:" ++ ",".intercalate (vs.map toString)
  | .dict kw => "dict:" ++ kwS kw
  | .dflt => "dflt"

def frameS : Option Frame → String
  | none => "TypeError"
  | some f => "ok " ++ " ".intercalate (f.map fun (n, v) => s!"{n}={argValS v}")

def bFun (b : KW) : Name → Val := fun r => (kwGet b r).getD 0

/-- the `**kwargs` dict found in a frame for signature `sig` -/
def vkDict (sig : List Param) (f : Option Frame) : KW :=
  match f, sig.find? (·.kind == .vk) with
  | some fr, some p =>
    match lookup fr p.name with
    | some (.dict d) => d
    | _ => []
  | _, _ => []

def runEvent (s : Scn) : List String := Id.run do
  let mut out : List String := [s!"tk {kwS (filterReserved s.kw)}"]
  let mut hist : List Callable := []
  let mut fwdKw : KW := []
  for cb in s.cbs do
    -- adapters are memoised in wrapping order; the call uses the adapter the cache hands out
    let fr := invokeWith s.fixed (fromCallable true (warm true [] hist) cb.callable).1 cb.callable.sig
      s.args (eventKwargs s.kw (bFun cb.b))
    hist := hist ++ [cb.callable]
    out := out ++ [s!"cb {cb.id} {frameS fr}"]
    if s.fwd == some cb.id then fwdKw := vkDict cb.callable.sig fr
  match s.fwd with
  | none => pure ()
  | some _ =>
    -- `sm.send(child, *args2, **kwargs, **kw2)` from inside that callback
    let ukw := fwdKw ++ s.kw2
    out := out ++ [s!"tk2 {kwS (filterReserved ukw)}"]
    for cb in s.cbs2 do
      let fr := invokeWith s.fixed (fromCallable true (warm true [] hist) cb.callable).1 cb.callable.sig
        s.args2 (eventKwargs ukw (bFun cb.b))
      hist := hist ++ [cb.callable]
      out := out ++ [s!"child {cb.id} {frameS fr}"]
  return out

def runScn (s : Scn) : List String :=
  match s.kind with
  | "bind" =>
    [s!"model {frameS (invoke s.fixed s.sig s.args s.kw)}",
     s!"spec {frameS (specCall s.sig s.args s.kw)}",
     s!"corner {if corner s.sig s.args s.kw then 1 else 0}",
     s!"wf {if wfB s.sig then 1 else 0}"]
  | "ba" =>
    [s!"args {",".intercalate ((baArgs s.sig s.arguments).map toString)}",
     s!"kwargs {kwS (baKwargs s.sig s.arguments false)}"]
  | "call" => [s!"frame {frameS (pyCall s.sig s.args s.kw)}"]
  | "event" => runEvent s
  | "layer" => [s!"ek {kwS (extendedKwargs s.kw (bFun s.b))}", s!"tk {kwS (filterReserved s.kw)}"]
  | k => [s!"unknown-kind {k}"]

partial def loop (h : IO.FS.Stream) (cur : Option Scn) : IO Unit := do
  let line ← h.getLine
  if line.isEmpty then return ()
  let toks := splitWs (line.trimAscii.toString)
  match toks, cur with
  | "scn" :: kind :: name :: _, _ => loop h (some { kind := kind, name := name })
  | ["end"], some s =>
    IO.println s!"scn {s.name}"
    for l in runScn s do IO.println l
    IO.println "end"
    loop h none
  | [], c => loop h c
  | t, some s => loop h (some (addLine s t))
  | _, none => loop h none

end DrvBind

def main : IO Unit := do
  DrvBind.loop (← IO.getStdin) none
