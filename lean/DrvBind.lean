/-! Line-protocol driver stub (to be filled in): reads stdin, echoes nothing. -/
def main : IO Unit := pure ()
