import SMV.Model.Validate
/-!
# Line-protocol driver for the class-definition validation model (C09)

```
scn validate <name>
strict <0|1>
state <initial 0|1> <final 0|1>          one line per declared state, in order
event <spec>,<spec>,…  |  event -        one line per event attribute (`-` = empty TransitionList)
loose <spec>,<spec>,…                    transitions created but not bound to an event
end
```
`<spec>` = `e:<src>:<tgt>:<internal>` or `a:<tgt>:<internal>:<upto>`.

Answer: `scn <name>` / `verdict invalid <reason> <ids>` or `verdict ok abstract=<0|1>` followed by
one `warn <ids>` line per warning / `end`. `<ids>` = comma-separated state indices, `-` if none.
-/
open SMV.Validate

namespace DrvV

def natOf (s : String) : Nat := s.toNat?.getD 0
def boolOf (s : String) : Bool := s == "1"

def specOf (s : String) : Option TSpec :=
  match s.splitOn ":" with
  | ["e", a, b, i] => some (.edge (natOf a) (natOf b) (boolOf i))
  | ["a", t, i, u] => some (.any (natOf t) (boolOf i) (natOf u))
  | _ => none

def specsOf (s : String) : List TSpec :=
  if s == "-" || s == "" then [] else (s.splitOn ",").filterMap specOf

def ids (l : List Nat) : String :=
  if l.isEmpty then "-" else ",".intercalate (l.map toString)

def reasonName : Reason → String
  | .internalNotSelf => "internalNotSelf"
  | .noStates => "noStates"
  | .noEvents => "noEvents"
  | .initialCount => "initialCount"
  | .finalWithTransitions => "finalWithTransitions"
  | .unreachable => "unreachable"
  | .trap => "trap"
  | .noPathToFinal => "noPathToFinal"

structure Acc where
  name : String
  d : ClassDef := { states := [], events := [] }

def addLine (a : Acc) (toks : List String) : Acc :=
  match toks with
  | ["strict", b] => { a with d := { a.d with strict := boolOf b } }
  | ["state", i, f] => { a with d := { a.d with states := a.d.states ++ [⟨boolOf i, boolOf f⟩] } }
  | ["event", s] => { a with d := { a.d with events := a.d.events ++ [specsOf s] } }
  | ["loose", s] => { a with d := { a.d with loose := a.d.loose ++ specsOf s } }
  | _ => a

def emit (a : Acc) : IO Unit := do
  IO.println s!"scn {a.name}"
  match check a.d with
  | .invalid r l => IO.println s!"verdict invalid {reasonName r} {ids l}"
  | .ok abs ws =>
    IO.println s!"verdict ok abstract={if abs then 1 else 0}"
    for w in ws do IO.println s!"warn {ids w}"
  IO.println "end"

partial def loop (h : IO.FS.Stream) (cur : Option Acc) : IO Unit := do
  let line ← h.getLine
  if line.isEmpty then return
  let toks := (line.trimAscii.toString.splitOn " ").filter (· ≠ "")
  match toks, cur with
  | "scn" :: _ :: name :: _, _ => loop h (some { name })
  | ["end"], some a => emit a; loop h none
  | t, some a => loop h (some (addLine a t))
  | _, none => loop h none

end DrvV

def main : IO Unit := do
  DrvV.loop (← IO.getStdin) none
