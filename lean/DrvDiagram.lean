import SMV.Model.Diagram
/-!
# Line-protocol driver for the diagram model (`drv_diagram`, property C18)

Input, one scenario between `scn diagram <name>` and `end`:

```
style fill=<s> pen=<s>                   -- DotGraphMachine.state_active_fillcolor / _penwidth
state id=<s> name=<s> value=<s> init=<0|1> final=<0|1> enter=<s,s,..|-> exit=<s,..|->
trans src=<index of the state line> tgt=<s> int=<0|1> ev=<s,..|-> guards=<s:1,s:0,..|-> on=<s,..|->
subject cls | subject inst <s>           -- any number; one output block each
```

Every `<s>` is a string in which each character outside `[A-Za-z0-9_]` is written `%<hex>;`.

Output: `scn <name>`, then per subject `sub …` followed by the `add_node`/`add_edge` calls in order

```
N <id> shape=<circle|rectangle> label=<s|-> per=<n|-> fill=<s> pen=<s|->
E <src> <dst> label=<s>
```

or `ERR <noinitial|invalidstate>`, then `end`.
-/
open SMV.Diagram

namespace DrvDiagram

def hexVal (c : Char) : Nat :=
  if c.isDigit then c.toNat - 48
  else if 'a' ≤ c ∧ c ≤ 'f' then c.toNat - 87
  else if 'A' ≤ c ∧ c ≤ 'F' then c.toNat - 55
  else 0

def decGo : List Char → Option Nat → String → String
  | [], _, acc => acc
  | c :: cs, none, acc => if c == '%' then decGo cs (some 0) acc else decGo cs none (acc.push c)
  | c :: cs, some n, acc =>
    if c == ';' then decGo cs none (acc.push (Char.ofNat n)) else decGo cs (some (n * 16 + hexVal c)) acc

def dec (s : String) : String := decGo s.toList none ""

def enc (s : String) : String :=
  s.foldl (fun acc c =>
    if c.isAlphanum || c == '_' then acc.push c
    else acc ++ "%" ++ String.ofList (Nat.toDigits 16 c.toNat) ++ ";") ""

def splitWs (s : String) : List String := (s.splitOn " ").filter (· ≠ "")

def kvs (toks : List String) : List (String × String) :=
  toks.filterMap fun t =>
    match t.splitOn "=" with
    | k :: v :: rest => some (k, "=".intercalate (v :: rest))
    | _ => none

def look (kv : List (String × String)) (k : String) : String :=
  match kv.find? (·.1 == k) with
  | some (_, v) => v
  | none => "-"

def strList (s : String) : List String :=
  if s == "-" then [] else (s.splitOn ",").map dec

def guardList (s : String) : List Guard :=
  if s == "-" then [] else
  (s.splitOn ",").filterMap fun t =>
    match t.splitOn ":" with
    | [a, b] => some { name := dec a, expected := b == "1" }
    | _ => none

structure Scn where
  name : String := ""
  states : Array StateDef := #[]
  subjects : Array Subject := #[]
  fill : String := "turquoise"
  pen : String := "2"
deriving Inhabited

def addLine (s : Scn) (toks : List String) : Scn :=
  match toks with
  | "style" :: rest =>
    let kv := kvs rest
    { s with fill := dec (look kv "fill"), pen := dec (look kv "pen") }
  | "state" :: rest =>
    let kv := kvs rest
    let sd : StateDef :=
      { id := dec (look kv "id"), name := dec (look kv "name"), value := dec (look kv "value"),
        initial := look kv "init" == "1", final := look kv "final" == "1",
        enter := strList (look kv "enter"), exit := strList (look kv "exit") }
    { s with states := s.states.push sd }
  | "trans" :: rest =>
    let kv := kvs rest
    let tr : TransDef :=
      { target := dec (look kv "tgt"), internal := look kv "int" == "1",
        events := strList (look kv "ev"), guards := guardList (look kv "guards"),
        on := strList (look kv "on") }
    let src := (look kv "src").toNat?.getD 0
    { s with states := s.states.modify src fun sd => { sd with trans := sd.trans ++ [tr] } }
  | "subject" :: "cls" :: _ => { s with subjects := s.subjects.push .cls }
  | "subject" :: "unset" :: _ => { s with subjects := s.subjects.push .unset }
  | "subject" :: "inst" :: v :: _ => { s with subjects := s.subjects.push (.inst (dec v)) }
  | "subject" :: "inst" :: [] => { s with subjects := s.subjects.push (.inst "") }
  | _ => s

def itemLine (s : Scn) : Item → String
  | .node n =>
    match n.label with
    | none => s!"N {enc n.id} shape=circle label=- per=- fill=black pen=-"
    | some l =>
      let per := match n.peripheries with
        | some p => toString p
        | none => "-"
      let fill := if n.highlighted then enc s.fill else "white"
      let pen := if n.highlighted then enc s.pen else "-"
      s!"N {enc n.id} shape=rectangle label={enc (renderStateLabel l)} per={per} fill={fill} pen={pen}"
  | .edge e => s!"E {enc e.src} {enc e.dst} label={enc (renderEdgeLabel e.label)}"

def subjectLine : Subject → String
  | .cls => "sub cls"
  | .inst v => s!"sub inst {enc v}"
  | .unset => "sub unset"

def runScn (s : Scn) : List String :=
  let m : Machine := ⟨s.states.toList⟩
  s.subjects.toList.flatMap fun sub =>
    subjectLine sub ::
      match getGraph m sub with
      | .ok g => g.items.map (itemLine s)
      | .error .noInitialState => ["ERR noinitial"]
      | .error .invalidStateValue => ["ERR invalidstate"]

partial def loop (h : IO.FS.Stream) (out : IO.FS.Stream) (cur : Option Scn) : IO Unit := do
  let line ← h.getLine
  if line.isEmpty then return
  let toks := splitWs (line.trimAscii.toString)
  match toks, cur with
  | "scn" :: _ :: name :: _, _ => loop h out (some { name := name })
  | ["end"], some s =>
    out.putStrLn s!"scn {s.name}"
    for l in runScn s do out.putStrLn l
    out.putStrLn "end"
    loop h out none
  | _, some s => loop h out (some (addLine s toks))
  | _, none => loop h out none

end DrvDiagram

def main : IO Unit := do
  let stdin ← IO.getStdin
  let stdout ← IO.getStdout
  DrvDiagram.loop stdin stdout none
