import SMV.Model.Lexer
namespace SMV.GExpr

theorem beq_false_of_isWord {c d : Char} (h : isWord c = true) (hd : isWord d = false) : (c == d) = false := by
  cases hcd : c == d with
  | false => rfl
  | true => have := eq_of_beq hcd; subst this; rw [h] at hd; cases hd

theorem isWord_special (c : Char) (h : isWord c = true) :
    isQuote c = false ∧ (c == '!') = false ∧ (c == '^') = false := by
  refine ⟨?_, beq_false_of_isWord h (by decide), beq_false_of_isWord h (by decide)⟩
  simp [isQuote, beq_false_of_isWord h (show isWord '"' = false by decide), beq_false_of_isWord h (show isWord '\'' = false by decide)]

theorem repl_plain (pw : Bool) (c : Char) (cs : List Char)
    (hq : isQuote c = false) (hb : (c == '!') = false) (hc : (c == '^') = false)
    (hv : (c == 'v') = false ∨ pw = true ∨ nextIsWord cs = true) :
    repl true (.code pw) (c :: cs) = c :: repl true (.code (isWord c)) cs := by
  simp only [repl, hq, hb, hc]
  rcases hv with h | h | h <;> simp [h]

example (rest : List Char) (pw : Bool) : repl true (.code pw) ('!' :: '=' :: rest) = '!' :: '=' :: repl true (.code false) rest := by
  simp [repl, nextIsEq, isQuote, isWord]
example (rest : List Char) (pw : Bool) : repl true (.code pw) ("<=".toList ++ rest) = "<=".toList ++ repl true (.code false) rest := by
  simp [repl, nextIsEq, isQuote, isWord]
end SMV.GExpr
