import SMV.Model.Protocol
import Std.Data.HashSet
/-!
# Line-protocol driver for the C06 protocol model (`drv_protocol`)

Two scenario kinds (one scenario = lines between `scn <kind> <name>` and `end`):

`scn validate <name>` — check that a sequence of protocol steps (the steps an implementation schedule
realised, as mapped by the harness) is a valid `Step` sequence of the model from `init`
(`run?`, proved sound w.r.t. `Step`/`Reach` in `SMV.Lemmas.Protocol`) and print the model's outcome:
```
cfg fixed=<0|1> atomic=<0|1> n=<senders>
l <label> <sender> [<id>]        label ∈ put acqOk acqFail pop nested done empty release recheckEmpty recheckMore
```
With `atomic=1` an `empty i` must be followed at once by `release i`; the pair is the model's
`emptyRelease i`.

`scn enum <name>` — enumerate every terminal outcome of the model for a program (bounded search, used
only to validate the model against the implementation, never as a proof):
```
cfg fixed=<0|1> atomic=<0|1> n=<senders>
prog <sender> <id,id,...>        events the sender sends, in order (next send after the previous returned)
nest <id> <id,id,...>            events sent by the callbacks of <id> (nested sends)
```
Output per outcome: `out proc=<actor>:<id>,... rets=<id>:<first|N>,... left=<id>,...`.
`rets`: per top-level send, the id of the first event its *outer* drain loop processed (what `send`
returns through `first_result`), `N` if it processed none.
-/
open SMV.Protocol

namespace DrvP

def splitWs (s : String) : List String := (s.splitOn " ").filter (· ≠ "")
def natOf (s : String) : Nat := s.toNat?.getD 0
def natList (s : String) : List Nat :=
  if s == "-" || s == "" then [] else (s.splitOn ",").filterMap String.toNat?
def kv (toks : List String) (k : String) : String :=
  match toks.findSome? (fun t => match t.splitOn "=" with
      | [a, b] => if a == k then some b else none
      | _ => none) with
  | some v => v
  | none => "-"

/-- program layer on top of the protocol state: what each sender is sending, return values -/
structure P where
  s : S
  n : Nat
  todo : List (List Nat)
  sending : List (Option Nat)
  first : List (Option Nat)
  outer : List Bool
  nestLeft : List Nat
  procBy : List (Nat × Nat)          -- reversed: (actor, id)
  rets : List (Nat × Option Nat)     -- reversed: (id, first)

def lset {α} (l : List α) (i : Nat) (a : α) : List α := l.set i a
def lget {α} [Inhabited α] (l : List α) (i : Nat) : α := l.getD i default

def P.init (n : Nat) (todo : List (List Nat)) : P :=
  { s := SMV.Protocol.init, n := n, todo := todo, sending := List.replicate n none,
    first := List.replicate n none, outer := List.replicate n false, nestLeft := [], procBy := [], rets := [] }

def pcStr : Pc → String
  | .idle => "idle" | .putDone => "putDone" | .check => "check"
  | .processing e => s!"processing({e.sender}:{e.id})" | .exiting => "exiting" | .recheck => "recheck"

def evStr (e : Ev) : String := s!"{e.sender}:{e.id}"
def evsStr (l : List Ev) : String := if l.isEmpty then "-" else ",".intercalate (l.map evStr)
def optStr : Option Nat → String | some x => toString x | none => "N"

def labelStr : Label → String
  | .put i id => s!"put {i} {id}" | .acqOk i => s!"acqOk {i}" | .acqFail i => s!"acqFail {i}"
  | .pop i => s!"pop {i}" | .nested i id => s!"nested {i} {id}" | .done i => s!"done {i}"
  | .empty i => s!"empty {i}" | .emptyRelease i => s!"emptyRelease {i}" | .release i => s!"release {i}"
  | .recheckEmpty i => s!"recheckEmpty {i}" | .recheckMore i => s!"recheckMore {i}"

/-- apply a label through the model's `step?` and update the program layer -/
def P.apply (fixed atomic : Bool) (nest : Nat → List Nat) (p : P) (l : Label) : Option P :=
  match step? fixed atomic p.s l with
  | none => none
  | some s' =>
    let i := l.actor
    let p1 : P := { p with s := s' }
    let p2 : P := match l with
      | .put _ id => { p1 with sending := lset p1.sending i (some id), first := lset p1.first i none,
                               outer := lset p1.outer i true,
                               todo := lset p1.todo i ((lget p1.todo i).drop 1) }
      | .pop _ =>
        match p.s.queue with
        | e :: _ =>
          let fst := if lget p1.outer i && (lget p1.first i).isNone then some e.id else lget p1.first i
          { p1 with procBy := (i, e.id) :: p1.procBy, first := lset p1.first i fst, nestLeft := nest e.id }
        | [] => p1
      | .nested _ _ => { p1 with nestLeft := p1.nestLeft.drop 1 }
      | .release _ => { p1 with outer := lset p1.outer i false }
      | _ => p1
    -- return of the top-level send
    match s'.pc i, lget p2.sending i with
    | .idle, some id => some { p2 with sending := lset p2.sending i none, rets := (id, lget p2.first i) :: p2.rets }
    | _, _ => some p2

def P.key (p : P) : String :=
  let pcs := ",".intercalate ((List.range p.n).map fun i => pcStr (p.s.pc i))
  let q := evsStr p.s.queue
  let pb := ",".intercalate (p.procBy.map fun (a, b) => s!"{a}:{b}")
  let rs := ",".intercalate (p.rets.map fun (a, b) => s!"{a}:{optStr b}")
  let td := ";".intercalate (p.todo.map fun l => ",".intercalate (l.map toString))
  let fs := ",".intercalate (p.first.map optStr)
  let ou := ",".intercalate (p.outer.map fun b => if b then "1" else "0")
  let nl := ",".intercalate (p.nestLeft.map toString)
  s!"{pcs}|{q}|{p.s.lock}|{pb}|{rs}|{td}|{fs}|{ou}|{nl}"

/-- program-constrained successors -/
def P.succs (fixed atomic : Bool) (nest : Nat → List Nat) (p : P) : List P :=
  (List.range p.n).flatMap fun i =>
    let puts : List Label := match p.s.pc i, lget p.todo i with
      | .idle, id :: _ => [.put i id]
      | _, _ => []
    let nesteds : List Label := match p.s.pc i, p.nestLeft with
      | .processing _, id :: _ => [.nested i id]
      | _, _ => []
    let others := (enabledOf fixed atomic p.s i).filter fun l =>
      match l with
      | .done _ => p.nestLeft.isEmpty
      | _ => true
    (puts ++ nesteds ++ others).filterMap (p.apply fixed atomic nest)

def P.outcome (p : P) : String :=
  let pb := ",".intercalate (p.procBy.reverse.map fun (a, b) => s!"{a}:{b}")
  let rs := ",".intercalate ((p.rets.toArray.qsort (fun a b => a.1 < b.1)).toList.map fun (a, b) => s!"{a}:{optStr b}")
  let left := if p.s.queue.isEmpty then "-" else ",".intercalate (p.s.queue.map fun e => toString e.id)
  let stuck := if (List.range p.n).all (fun i => p.s.pc i == .idle) then "" else " stuck=1"
  s!"out proc={if pb == "" then "-" else pb} rets={if rs == "" then "-" else rs} left={left}{stuck}"

partial def enumerate (fixed atomic : Bool) (nest : Nat → List Nat) (limit : Nat)
    (stack : List P) (seen : Std.HashSet String) (outs : Std.HashSet String) : Std.HashSet String × Std.HashSet String :=
  match stack with
  | [] => (seen, outs)
  | p :: rest =>
    if seen.size ≥ limit then (seen, outs) else
    let nexts := p.succs fixed atomic nest
    if nexts.isEmpty then enumerate fixed atomic nest limit rest seen (outs.insert p.outcome)
    else
      let (stack', seen') := nexts.foldl (fun (acc : List P × Std.HashSet String) q =>
        let k := q.key
        if acc.2.contains k then acc else (q :: acc.1, acc.2.insert k)) (rest, seen)
      enumerate fixed atomic nest limit stack' seen' outs

structure Scn where
  kind : String
  name : String
  fixed : Bool := true
  atomic : Bool := false
  n : Nat := 0
  limit : Nat := 2000000
  labels : Array Label := #[]
  progs : List (Nat × List Nat) := []
  nests : List (Nat × List Nat) := []
  bad : Option String := none

def parseLabel (toks : List String) : Option Label :=
  match toks with
  | ["put", i, id] => some (.put (natOf i) (natOf id))
  | ["nested", i, id] => some (.nested (natOf i) (natOf id))
  | ["acqOk", i] => some (.acqOk (natOf i))
  | ["acqFail", i] => some (.acqFail (natOf i))
  | ["pop", i] => some (.pop (natOf i))
  | ["done", i] => some (.done (natOf i))
  | ["empty", i] => some (.empty (natOf i))
  | ["emptyRelease", i] => some (.emptyRelease (natOf i))
  | ["release", i] => some (.release (natOf i))
  | ["recheckEmpty", i] => some (.recheckEmpty (natOf i))
  | ["recheckMore", i] => some (.recheckMore (natOf i))
  | _ => none

def addLine (sc : Scn) (line : String) : Scn :=
  match splitWs line with
  | "cfg" :: rest =>
    { sc with fixed := kv rest "fixed" == "1", atomic := kv rest "atomic" == "1", n := natOf (kv rest "n"),
              limit := if kv rest "limit" == "-" then sc.limit else natOf (kv rest "limit") }
  | "l" :: rest =>
    match parseLabel rest with
    | some l => { sc with labels := sc.labels.push l }
    | none => { sc with bad := some line }
  | ["prog", i, ids] => { sc with progs := sc.progs ++ [(natOf i, natList ids)] }
  | ["nest", id, ids] => { sc with nests := sc.nests ++ [(natOf id, natList ids)] }
  | [] => sc
  | _ => { sc with bad := some line }

/-- with `atomic`, fold `empty i; release i` into `emptyRelease i` (and reject an `empty i` followed by
anything else: another step in between is not a step sequence of the atomic protocol) -/
def foldAtomic : List Label → Except String (List Label)
  | [] => .ok []
  | .empty i :: .release j :: rest =>
    if i == j then (foldAtomic rest).map (.emptyRelease i :: ·)
    else .error s!"atomic: empty {i} followed by release {j}"
  | .empty i :: l :: _ => .error s!"atomic: empty {i} followed by '{labelStr l}' instead of release {i}"
  | [.empty i] => .error s!"atomic: empty {i} is the last step"
  | l :: rest => (foldAtomic rest).map (l :: ·)

def runValidate (sc : Scn) : List String := Id.run do
  let nest := fun (_ : Nat) => ([] : List Nat)
  let labels ← match (if sc.atomic then foldAtomic sc.labels.toList else .ok sc.labels.toList) with
    | .ok ls => pure ls
    | .error e => return [s!"valid 0 at=- reason={e.replace " " "_"}"]
  let mut p := P.init sc.n (List.replicate sc.n [])
  let mut k := 0
  for l in labels do
    match p.apply sc.fixed sc.atomic nest l with
    | some p' => p := p'
    | none =>
      let pcs := ",".intercalate ((List.range sc.n).map fun i => s!"{i}={pcStr (p.s.pc i)}")
      return [s!"valid 0 at={k} label={(labelStr l).replace " " "_"} pcs={pcs} lock={p.s.lock} queue={evsStr p.s.queue}"]
    k := k + 1
  let pcs := ",".intercalate ((List.range sc.n).map fun i => s!"{i}={pcStr (p.s.pc i)}")
  let logOk := decide (p.s.log = p.s.processed.flatMap (fun e => [Mark.beg e, Mark.fin e]) ++
      (match p.s.cur with | some e => [Mark.beg e] | none => []))
  let fifoOk := decide (p.s.processed ++ p.s.cur.toList ++ p.s.queue = p.s.history)
  return [s!"valid 1 steps={k}", p.outcome, s!"processed {evsStr p.s.processed}", s!"history {evsStr p.s.history}",
          s!"queue {evsStr p.s.queue}", s!"lock {p.s.lock}", s!"pcs {pcs}", s!"inv serial={logOk} fifo={fifoOk}"]

def runEnum (sc : Scn) : List String :=
  let nest := fun (id : Nat) => match sc.nests.find? (·.1 == id) with
    | some (_, l) => l
    | none => []
  let todo := (List.range sc.n).map fun i => match sc.progs.find? (·.1 == i) with
    | some (_, l) => l
    | none => []
  let p0 := P.init sc.n todo
  let (seen, outs) := enumerate sc.fixed sc.atomic nest sc.limit [p0] (Std.HashSet.emptyWithCapacity.insert p0.key) {}
  let os := (outs.toArray.qsort (· < ·)).toList
  os ++ [s!"states {seen.size} outcomes {os.length} complete={if seen.size < sc.limit then 1 else 0}"]

def emit (sc : Scn) : IO Unit := do
  IO.println s!"scn {sc.name}"
  match sc.bad with
  | some l => IO.println s!"error bad line: {l}"
  | none =>
    let lines := if sc.kind == "validate" then runValidate sc else if sc.kind == "enum" then runEnum sc
      else [s!"error unknown kind {sc.kind}"]
    for l in lines do IO.println l
  IO.println "end"

partial def loop (h : IO.FS.Stream) (cur : Option Scn) : IO Unit := do
  let line ← h.getLine
  if line.isEmpty then return
  let t := line.trimAscii.toString
  match splitWs t, cur with
  | ["scn", kind, name], _ => loop h (some { kind := kind, name := name })
  | ["end"], some sc => emit sc; loop h none
  | _, some sc => loop h (some (addLine sc t))
  | _, none => loop h none

end DrvP

def main : IO Unit := do
  DrvP.loop (← IO.getStdin) none
